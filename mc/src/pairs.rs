//! C14 (equality / hash / clone coherence) and C20 (hash sensitivity and
//! reproducibility): exhaustive over a pool of trees, their twins, all single
//! edits at every node and all observer prefixes up to a bound.

use rspack_sources::{BoxSource, MapOptions, Source, SourceMap};
use serde::{Deserialize, Serialize};
use serde_json::{json, Value};

use crate::{
  engine::Ctx,
  hist::{answer, hash_dyn, Answer, CsCall},
  model, observe,
  refcodec::Seg,
  term::{Repl, Term},
  tree_checks::cached_under_replace,
  trees::{self, Striper, K_A, K_B},
};

pub fn pool(tier: &str) -> Vec<Term> {
  let thorough = tier == "thorough";
  let o = |t: &str| Term::orig(t, &trees::file_for(t, trees::TEXTS_FULL));
  let mut v: Vec<Term> = Vec::new();
  v.extend(trees::raw_leaves(trees::TEXTS_FULL));
  v.extend(trees::orig_leaves(trees::TEXTS_FULL));
  v.push(Term::RawBuf(vec![0xff, b'a']));
  v.push(Term::RawBuf(vec![b'a', 0x80, 0xc3, b'\n']));
  v.push(Term::cached(Term::concat(vec![Term::RawBuf(vec![0xfe]), Term::raw("x")])));
  v.push(Term::RawBufS(vec![0xff, b'a']));
  v.push(Term::RawBufS(vec![]));
  let sms = trees::sms_leaves(&["ab\n", "a\nb"], 2, &[None, Some(K_A), Some(K_B)]);
  v.extend(sms.iter().step_by(if thorough { 2 } else { 5 }).cloned());
  // with file / sourceRoot
  if let Term::Sms(s) = &sms[9] {
    let mut s2 = (**s).clone();
    s2.map.root = Some("r".into());
    s2.map.file = Some("out.js".into());
    v.push(Term::Sms(Box::new(s2.clone())));
    // a root that already ends in a slash, inside a composite (names are resolved by streaming)
    s2.map.root = Some("r/".into());
    v.push(Term::concat(vec![Term::Sms(Box::new(s2.clone())), Term::raw("x")]));
    v.push(Term::Sms(Box::new(s2.clone())));
    // the original text given although there is no inner map (a field no observer reads, but
    // equality, hash and Clone see it)
    s2.map.root = None;
    s2.original_source = Some("orig text\n".into());
    v.push(Term::Sms(Box::new(s2)));
  }
  v.push(crate::c09::example_combined());
  if let Term::Sms(s) = crate::c09::example_combined() {
    let mut s2 = (*s).clone();
    s2.remove = true;
    v.push(Term::Sms(Box::new(s2.clone())));
    v.push(Term::cached(Term::Sms(Box::new(s2.clone()))));
    s2.original_source = None;
    v.push(Term::Sms(Box::new(s2)));
  }
  let leaves: Vec<Term> = vec![Term::raw("a"), Term::raw("\n"), o("a\nb"), o("a;b"), sms[17].clone(), Term::RawStr("b".into()), Term::RawBufS(b"q\n".to_vec())];
  for a in &leaves {
    v.push(Term::cached(a.clone()));
    v.push(Term::boxed(a.clone()));
    v.push(Term::replace(a.clone(), vec![]));
    v.push(Term::replace(a.clone(), vec![Repl::new(0, 1, "X")]));
    v.push(Term::replace(a.clone(), vec![Repl::new(1, 1, "B"), Repl::new(1, 1, "A")]));
    v.push(Term::replace(a.clone(), vec![Repl::new(1, 1, "B").enf(2), Repl::new(1, 1, "A").enf(0).named("n")]));
    v.push(Term::concat(vec![a.clone()]));
    for b in &leaves {
      v.push(Term::concat(vec![a.clone(), b.clone()]));
      if thorough {
        v.push(Term::Concat { children: vec![Term::concat(vec![a.clone(), b.clone()]), a.clone()], typed: true, add: false });
        v.push(Term::Concat { children: vec![Term::concat(vec![a.clone(), b.clone()]), b.clone()], typed: false, add: true });
      }
    }
  }
  // three replacements in every insertion order (the sorted order differs from all but one)
  {
    let base = [Repl::new(5, 5, "A"), Repl::new(1, 2, "B"), Repl::new(3, 3, "C")];
    for perm in [[0, 1, 2], [0, 2, 1], [1, 0, 2], [1, 2, 0], [2, 0, 1], [2, 1, 0]] {
      v.push(Term::replace(Term::orig("abcdef\n", "p.js"), perm.iter().map(|&i| base[i].clone()).collect()));
    }
  }
  // a ReplaceSource over a ConcatSource, followed by a sibling
  v.push(Term::concat(vec![Term::replace(Term::concat(vec![o("a;b")]), vec![Repl::new(3, 4, "X")]), o("a\nb")]));
  v.push(Term::concat(vec![Term::replace(Term::concat(vec![Term::raw("ab"), o("a")]), vec![Repl::new(1, 5, "Y")]), Term::raw("cd"), o("a;b")]));
  // children without text that still carry map information
  v.push(Term::concat(vec![o("a"), Term::orig("", "e.js")]));
  v.push(Term::concat(vec![Term::orig("", "e.js"), o("a;b"), Term::raw("")]));
  v.push(Term::concat(vec![o("a"), Term::replace(Term::orig("zz", "gone.js"), vec![Repl::new(0, 2, "")])]));
  v.push(Term::cached(Term::concat(vec![Term::raw("x"), Term::orig("", "e.js")])));
  v.push(Term::cached(Term::replace(o("a\nb"), vec![Repl::new(1, 2, "")])));
  v.push(Term::cached(Term::cached(o("a"))));
  // children whose names sit at different local than global indices, plain and behind a cache (the
  // cache is filled by whichever observer runs first: text-carrying stream or map())
  {
    let nv = trees::named_variants();
    v.push(Term::concat(vec![nv[0].clone(), nv[2].clone()]));
    v.push(Term::cached(Term::concat(vec![nv[0].clone(), nv[2].clone()])));
    v.push(Term::cached(Term::concat(vec![nv[4].clone(), Term::raw(";"), nv[1].clone()])));
  }
  v.push(Term::concat(vec![Term::cached(o("a;b")), Term::replace(Term::raw("x"), vec![Repl::new(0, 0, "y")])]));
  v.push(Term::replace(Term::concat(vec![o("a"), Term::raw("b")]), vec![Repl::new(1, 2, "Z").named("n")]));
  v.retain(|t| !cached_under_replace(t));
  v.sort();
  v.dedup();
  v
}

/// Every (quick: every 8th) tree of a reduced E1 scope (8 leaves of every kind, all pairs of 4 of them,
/// every single replacement over leaves and pairs, wrappers) - checked with observer prefixes of
/// length <= 1, every single edit, and against every tree of the base pool.
pub fn pool_extra(tier: &str) -> Vec<Term> {
  let o = |t: &str| Term::orig(t, &trees::file_for(t, trees::TEXTS_FULL));
  let sms = trees::sms_leaves(&["ab\n", "a\nb"], 2, &[None, Some(K_A), Some(K_B)]);
  let nv = trees::named_variants();
  let leaves: Vec<Term> = vec![
    Term::raw("a"),
    Term::raw("a\nb"),
    o("a;b"),
    o("a\nb"),
    sms[17].clone(),
    sms[40.min(sms.len() - 1)].clone(),
    Term::RawBuf(vec![b'a', 0xff]),
    Term::RawStr("b\n".into()),
    nv[nv.len() - 1].clone(),
    crate::c09::example_combined(),
  ];
  let small: Vec<Term> = vec![Term::raw("a"), o("a;b"), sms[17].clone(), Term::RawBufS(b"q\n".to_vec())];
  let sc = trees::TreeScope {
    leaves,
    small_leaves: small,
    repl_contents1: vec!["", "X", "\n"],
    repl_contents2: vec![],
    repl_names: true,
    repl_max_leaf: 1,
    repl_max_composite: 1,
    concat3: false,
    level3: false,
  };
  let mut v: Vec<Term> = Vec::new();
  let mut st = Striper::new(0, 1);
  trees::for_each_tree(&sc, &mut st, &mut |t| {
    if !cached_under_replace(t) {
      v.push(t.clone());
    }
  });
  v.sort();
  v.dedup();
  let base = pool(tier);
  v.retain(|t| base.binary_search(t).is_err());
  if tier != "thorough" {
    // quick tier: every 8th tree of the family
    v = v.into_iter().step_by(8).collect();
  }
  v
}

// --------------------------------------------------------------------------- observation vector

#[derive(Clone, Debug, PartialEq, Eq)]
pub struct ObsVec {
  pub answers: Vec<Answer>,
  pub maps: (Option<SourceMap>, Option<SourceMap>),
}

const OBS_CALLS: [CsCall; 8] =
  [CsCall::Source, CsCall::Buffer, CsCall::Size, CsCall::Rope, CsCall::MapT, CsCall::MapF, CsCall::StreamTN, CsCall::StreamFN];

pub fn observe_all(src: &dyn Source, text: &str) -> ObsVec {
  ObsVec {
    answers: OBS_CALLS.iter().map(|c| answer(src, *c, text)).collect(),
    maps: (
      observe::guarded(|| src.map(&MapOptions::new(true))).unwrap_or(None),
      observe::guarded(|| src.map(&MapOptions::new(false))).unwrap_or(None),
    ),
  }
}

// --------------------------------------------------------------------------- observer prefixes

#[derive(Clone, Copy, Debug, PartialEq, Eq, Serialize, Deserialize)]
pub enum Pre {
  Source,
  MapT,
  MapF,
  StreamT,
  Hash,
  Size,
  /// continue with a clone of the object
  Clone,
}

const PRES: [Pre; 7] = [Pre::Source, Pre::MapT, Pre::MapF, Pre::StreamT, Pre::Hash, Pre::Size, Pre::Clone];

pub fn prefixes(max: usize) -> Vec<Vec<Pre>> {
  let mut out: Vec<Vec<Pre>> = vec![vec![]];
  let mut layer: Vec<Vec<Pre>> = vec![vec![]];
  for _ in 0..max {
    let mut next = Vec::new();
    for p in &layer {
      for x in PRES {
        let mut q = p.clone();
        q.push(x);
        next.push(q);
      }
    }
    out.extend(next.iter().cloned());
    layer = next;
  }
  out
}

/// Apply a prefix; Err on panic or when a clone differs from its original.
fn apply_prefix(mut src: BoxSource, pre: &[Pre]) -> Result<BoxSource, String> {
  for p in pre {
    match p {
      Pre::Source => drop(observe::guarded(|| src.source().len())?),
      Pre::MapT => drop(observe::guarded(|| src.map(&MapOptions::new(true)))?),
      Pre::MapF => drop(observe::guarded(|| src.map(&MapOptions::new(false)))?),
      Pre::StreamT => drop(observe::stream(src.as_ref(), true, false)?),
      Pre::Hash => drop(observe::guarded(|| hash_dyn(src.as_ref()))?),
      Pre::Size => drop(observe::guarded(|| src.size())?),
      Pre::Clone => {
        // dyn_clone of the object behind the Arc (a new object, not a new handle)
        let c: Box<dyn Source> = observe::guarded(|| dyn_clone_box(src.as_ref()))?;
        let c: BoxSource = c.into();
        if !observe::guarded(|| &c == &src)? {
          return Err("CLONE-NOT-EQUAL".into());
        }
        src = c;
      }
    }
  }
  Ok(src)
}

fn dyn_clone_box(s: &(dyn Source + 'static)) -> Box<dyn Source> {
  // what `Box<dyn Source>::clone` does (clone_trait_object!): a new object of the same concrete type
  dyn_clone::clone_box(s)
}

// --------------------------------------------------------------------------- C14

pub fn c14_tree(ctx: &mut Ctx, t: &Term, pres: &[Vec<Pre>]) {
  let text = model::model_text(t);
  let fresh = t.build();
  let reference = observe_all(fresh.as_ref(), &text);
  let h_ref = hash_dyn(t.build().as_ref());
  let size = t.size();
  for pa in pres {
    for pb in pres {
      ctx.evaluations += 1;
      ctx.transitions += (pa.len() + pb.len()) as u64 + 2;
      let case = || json!({"kind": "twins", "term": serde_json::to_value(t).unwrap(), "left_prefix": serde_json::to_value(pa).unwrap(), "right_prefix": serde_json::to_value(pb).unwrap()});
      let sz = size + pa.len() + pb.len();
      let (a, b) = match (apply_prefix(t.build(), pa), apply_prefix(t.build(), pb)) {
        (Ok(a), Ok(b)) => (a, b),
        (Err(e), _) | (_, Err(e)) => {
          let clause = if e == "CLONE-NOT-EQUAL" { "clone_not_equal" } else { "panic" };
          ctx.violation(clause, e.clone(), None, case, sz, format!("prefix failed: {e}"));
          continue;
        }
      };
      if pa.len() + pb.len() >= 2 {
        ctx.nontrivial += 1;
      }
      match observe::guarded(|| (&a == &b, &b == &a)) {
        Ok((true, true)) => {}
        Ok(x) => ctx.violation("twins_not_equal", String::new(), None, case, sz, format!("sources built by the same constructor calls compare {x:?} after prefixes {pa:?} / {pb:?}")),
        Err(e) => ctx.violation("panic", "eq".into(), None, case, sz, format!("== panicked: {e}")),
      }
      let (ha, hb) = (hash_dyn(a.as_ref()), hash_dyn(b.as_ref()));
      if ha != hb {
        ctx.violation("equal_but_hash_differs", String::new(), None, case, sz, format!("hashes {ha:?} vs {hb:?} after prefixes {pa:?} / {pb:?}"));
      }
      if ha != h_ref {
        ctx.violation("hash_changed_by_observers", String::new(), None, case, sz, format!("hash {ha:?} after {pa:?}, fresh value hashes to {h_ref:?}"));
      }
      // every observer answers what a fresh value answers (hence also: the same each time)
      let oa = observe_all(a.as_ref(), &text);
      // answers are compared as text / bytes / size / per-position attribution: a CachedSource
      // legitimately re-encodes its map once a stream filled the cache, so raw SourceMap values
      // are only compared on values without observer history
      if oa.answers != reference.answers || (pa.is_empty() && oa.maps != reference.maps) {
        let which = oa.answers.iter().zip(&reference.answers).position(|(x, y)| x != y);
        ctx.violation(
          "observer_answer_depends_on_history",
          format!("{:?}", which.map(|i| OBS_CALLS[i])),
          None,
          case,
          sz,
          format!("after {pa:?}: {:?} differs from the fresh value's answer", which.map(|i| OBS_CALLS[i])),
        );
      }
      ctx.outcome(&(ha, pa.len(), pb.len()));
      ctx.traces_validated += 1;
    }
  }
}

/// a == b must imply equal hashes and equal answers (neighbours one edit apart).
pub fn c14_neighbours(ctx: &mut Ctx, t: &Term, e: &Term, kind: &str, pres: &[Vec<Pre>]) {
  c14_neighbours_built(ctx, t, e, kind, pres);
  if t.any(&|x| matches!(x, Term::Sms(_))) {
    // the same pair with the two maps made from one base map by clone + setters (shared buffers)
    let k2 = format!("{kind}+shared_map_buffers");
    crate::term::with_shared_map_buffers(|| c14_neighbours_built(ctx, t, e, &k2, &pres[..1.min(pres.len())]));
  }
}

fn c14_neighbours_built(ctx: &mut Ctx, t: &Term, e: &Term, kind: &str, pres: &[Vec<Pre>]) {
  let (ta, tb) = (model::model_text(t), model::model_text(e));
  let fresh_eq = {
    let (a, b) = (t.build(), e.build());
    observe::guarded(|| &a == &b).unwrap_or(false)
  };
  for pa in pres {
    for pb in pres {
      ctx.evaluations += 1;
      ctx.transitions += (pa.len() + pb.len()) as u64 + 1;
      let case = || json!({"kind": "neighbours", "edit": kind, "term": serde_json::to_value(t).unwrap(), "edited": serde_json::to_value(e).unwrap(), "left_prefix": serde_json::to_value(pa).unwrap(), "right_prefix": serde_json::to_value(pb).unwrap()});
      let (a, b) = match (apply_prefix(t.build(), pa), apply_prefix(e.build(), pb)) {
        (Ok(a), Ok(b)) => (a, b),
        _ => continue, // panics are reported by the twin pass
      };
      let eq = observe::guarded(|| &a == &b).unwrap_or(false);
      let sym = observe::guarded(|| &b == &a).unwrap_or(false);
      if eq != fresh_eq {
        ctx.violation(
          "equality_depends_on_history",
          kind.to_string(),
          None,
          case,
          t.size(),
          format!("edit {kind}: the fresh values compare {fresh_eq}, after observer prefixes {pa:?} / {pb:?} they compare {eq}"),
        );
      }
      if eq != sym {
        ctx.violation("eq_not_symmetric", kind.to_string(), None, case, t.size(), format!("a==b is {eq}, b==a is {sym}"));
      }
      if eq {
        ctx.count("neighbours_equal");
        if hash_dyn(a.as_ref()) != hash_dyn(b.as_ref()) {
          ctx.violation("equal_but_hash_differs", kind.to_string(), None, case, t.size(), format!("edit {kind}: values compare equal but hash differently"));
        }
        let (oa, ob) = (observe_all(a.as_ref(), &ta), observe_all(b.as_ref(), &tb));
        if ta != tb || oa.answers != ob.answers || (pa.is_empty() && pb.is_empty() && oa.maps != ob.maps) {
          ctx.violation("equal_but_observably_different", kind.to_string(), None, case, t.size(), format!("edit {kind}: values compare equal but observers answer differently"));
        }
      } else {
        ctx.count("neighbours_unequal");
      }
    }
  }
}

/// "Sources built from the same constructor calls are equal" also when observers ran while one of
/// them was still being built: a ReplaceSource gets its replacements one by one with an observer
/// call after a prefix of them; it must equal the plainly built twin, hash alike and answer alike.
/// A ConcatSource built by add() with one observer call after the first `gap` children (gap 0: on
/// the still empty ConcatSource), for every gap and observer; first element = built without observing.
pub fn staged_concat_builds(t: &Term) -> Option<(BoxSource, Vec<(String, Result<BoxSource, String>)>)> {
  use rspack_sources::{ConcatSource, SourceExt};
  let Term::Concat { children, .. } = t else { return None };
  let add_all = |c: &mut ConcatSource, cs: &[Term]| {
    for ch in cs {
      match ch.build_typed() {
        crate::term::Built::Concat(cc) => c.add(cc),
        crate::term::Built::Box(b) => c.add(b),
      }
    }
  };
  let mut plain = ConcatSource::default();
  add_all(&mut plain, children);
  let mut out = Vec::new();
  for gap in 0..children.len() {
    for pre in PRES {
      let built = observe::guarded(|| {
        let mut c = ConcatSource::default();
        add_all(&mut c, &children[..gap]);
        match pre {
          Pre::Source => drop(c.source().len()),
          Pre::MapT => drop(c.map(&MapOptions::new(true))),
          Pre::MapF => drop(c.map(&MapOptions::new(false))),
          Pre::StreamT => drop(observe::stream(&c, true, false)),
          Pre::Hash => drop(hash_dyn(&c)),
          Pre::Size => drop(c.size()),
          Pre::Clone => c = c.clone(),
        }
        add_all(&mut c, &children[gap..]);
        c.boxed()
      });
      out.push((format!("{pre:?} after {gap} of {} children", children.len()), built));
    }
  }
  Some((plain.boxed(), out))
}

fn c14_staged_concat(ctx: &mut Ctx, t: &Term) {
  let Some((plain, builds)) = staged_concat_builds(t) else { return };
  let text = model::model_text(t);
  let reference = observe_all(plain.as_ref(), &text);
  let h_ref = hash_dyn(plain.as_ref());
  for (how, built) in builds {
    ctx.evaluations += 1;
    ctx.transitions += 2;
    let case = || json!({"kind": "staged_concat", "term": serde_json::to_value(t).unwrap(), "observer": how});
    let b = match built {
      Ok(b) => b,
      Err(e) => {
        ctx.violation("panic", "staged concat".into(), None, case, t.size(), e);
        continue;
      }
    };
    ctx.nontrivial += 1;
    ctx.count("staged_concat_builds");
    if !observe::guarded(|| &plain == &b).unwrap_or(false) {
      ctx.violation("twins_not_equal", "staged concat".into(), None, case, t.size(), format!("ConcatSource built by add() with {how}: not equal to the twin built without observing"));
    }
    if hash_dyn(b.as_ref()) != h_ref {
      ctx.violation("equal_but_hash_differs", "staged concat".into(), None, case, t.size(), format!("ConcatSource built by add() with {how}: hash differs from the twin built without observing"));
    }
    let ob = observe_all(b.as_ref(), &text);
    if ob.answers != reference.answers {
      let which = ob.answers.iter().zip(&reference.answers).position(|(x, y)| x != y);
      ctx.violation("equal_but_observably_different", format!("staged concat {:?}", which.map(|i| OBS_CALLS[i])), None, case, t.size(), format!("ConcatSource built by add() with {how}: {:?} answers differently from the twin built without observing", which.map(|i| OBS_CALLS[i])));
    }
  }
}

pub fn c14_staged(ctx: &mut Ctx, t: &Term) {
  use rspack_sources::{ReplaceSource, SourceExt};
  c14_staged_concat(ctx, t);
  let Term::Replace(inner, repls) = t else { return };
  if repls.len() < 2 {
    return;
  }
  let text = model::model_text(t);
  let plain = t.build();
  let reference = observe_all(plain.as_ref(), &text);
  let h_ref = hash_dyn(t.build().as_ref());
  for gap in 1..repls.len() {
    for pre in PRES {
      ctx.evaluations += 1;
      ctx.transitions += repls.len() as u64 + 1;
      let case = || json!({"kind": "staged", "term": serde_json::to_value(t).unwrap(), "observer_after": gap, "observer": format!("{pre:?}")});
      let built = observe::guarded(|| {
        let mut r = ReplaceSource::new(inner.build());
        for x in &repls[..gap] {
          crate::term::apply_repl(&mut r, x);
        }
        match pre {
          Pre::Source => drop(r.source().len()),
          Pre::MapT => drop(r.map(&MapOptions::new(true))),
          Pre::MapF => drop(r.map(&MapOptions::new(false))),
          Pre::StreamT => drop(observe::stream(&r, true, false)),
          Pre::Hash => drop(hash_dyn(&r)),
          Pre::Size => drop(r.size()),
          Pre::Clone => r = r.clone(),
        }
        for x in &repls[gap..] {
          crate::term::apply_repl(&mut r, x);
        }
        r.boxed()
      });
      let b = match built {
        Ok(b) => b,
        Err(e) => {
          ctx.violation("panic", "staged".into(), None, case, t.size(), e);
          continue;
        }
      };
      ctx.nontrivial += 1;
      let eq = observe::guarded(|| &plain == &b).unwrap_or(false);
      if !eq {
        ctx.violation("twins_not_equal", "staged".into(), None, case, t.size(), format!("built with {pre:?} after {gap} replacements: not equal to the plainly built twin"));
      }
      if hash_dyn(b.as_ref()) != h_ref {
        ctx.violation("equal_but_hash_differs", "staged".into(), None, case, t.size(), format!("built with {pre:?} after {gap} replacements: hash differs from the plainly built twin"));
      }
      let ob = observe_all(b.as_ref(), &text);
      if ob.answers != reference.answers {
        let which = ob.answers.iter().zip(&reference.answers).position(|(x, y)| x != y);
        ctx.violation(
          "equal_but_observably_different",
          format!("staged {:?}", which.map(|i| OBS_CALLS[i])),
          None,
          case,
          t.size(),
          format!("built with {pre:?} after {gap} of {} replacements: equal to its twin but {:?} answers differently", repls.len(), which.map(|i| OBS_CALLS[i])),
        );
      }
      ctx.traces_validated += 1;
    }
  }
  // a clone and its original that are edited differently afterwards are two independent values:
  // observed alternately (original, clone, original) each answers like a twin built from its own calls
  for gap in 0..repls.len() {
    for observed_before_clone in [true, false] {
      ctx.evaluations += 1;
      ctx.transitions += repls.len() as u64 + 4;
      ctx.count("diverging_clone_histories");
      let case = || json!({"kind": "staged", "term": serde_json::to_value(t).unwrap(), "clone_after": gap, "observed_before_clone": observed_before_clone});
      let extra = Repl::new(0, 0, "Q");
      let mut clone_repls: Vec<Repl> = repls[..gap].to_vec();
      clone_repls.push(extra.clone());
      let clone_term = Term::Replace(inner.clone(), clone_repls);
      let clone_text = model::model_text(&clone_term);
      let got = observe::guarded(|| {
        let mut r = ReplaceSource::new(inner.build());
        for x in &repls[..gap] {
          crate::term::apply_repl(&mut r, x);
        }
        if observed_before_clone {
          drop(r.source().len());
        }
        let mut c = r.clone();
        for x in &repls[gap..] {
          crate::term::apply_repl(&mut r, x);
        }
        crate::term::apply_repl(&mut c, &extra);
        let (r, c) = (r.boxed(), c.boxed());
        let first = observe_all(r.as_ref(), &text);
        let of_clone = observe_all(c.as_ref(), &clone_text);
        let again = observe_all(r.as_ref(), &text);
        (first, of_clone, again, hash_dyn(r.as_ref()), hash_dyn(c.as_ref()))
      });
      match got {
        Err(e) => ctx.violation("panic", "diverging clones".into(), None, case, t.size(), e),
        Ok((first, of_clone, again, h_r, h_c)) => {
          let clone_ref = observe_all(clone_term.build().as_ref(), &clone_text);
          let wrong = if first.answers != reference.answers {
            Some("the original, observed first")
          } else if of_clone.answers != clone_ref.answers {
            Some("the clone")
          } else if again.answers != reference.answers {
            Some("the original, observed again after the clone")
          } else if h_r != h_ref || h_c != hash_dyn(clone_term.build().as_ref()) {
            Some("a hash")
          } else {
            None
          };
          if let Some(w) = wrong {
            ctx.violation("clone_shares_state_with_original", "diverging clones".into(), None, case, t.size(), format!("cloned after {gap} of {} replacements (observed before cloning: {observed_before_clone}), both edited afterwards: {w} answers differently from a twin built from the same calls", repls.len()));
          }
          ctx.nontrivial += 1;
        }
      }
    }
  }
}

pub fn c14_worker(tier: &str, k: usize, n: usize, ctx: &mut Ctx) {
  let pool = pool(tier);
  let pres2 = prefixes(2);
  let pres1 = prefixes(1);
  let mut st = Striper::new(k, n);
  for t in &pool {
    if !st.mine() {
      continue;
    }
    crate::set_current_case(t);
    ctx.begin_case(|| serde_json::to_string(t).unwrap());
    ctx.states += 1;
    ctx.sample(40, 2, || json!({"term": serde_json::to_value(t).unwrap(), "prefix_pairs": pres2.len() * pres2.len()}));
    c14_tree(ctx, t, &pres2);
    c14_staged(ctx, t);
    for (kind, e) in edits(t) {
      ctx.states += 1;
      c14_neighbours(ctx, t, &e, &kind, &pres1);
    }
  }
  let pres0 = prefixes(0);
  for t in &pool_extra(tier) {
    if !st.mine() {
      continue;
    }
    crate::set_current_case(t);
    ctx.begin_case(|| serde_json::to_string(t).unwrap());
    ctx.states += 1;
    ctx.count("extra_pool_trees");
    c14_tree(ctx, t, &pres1);
    c14_staged(ctx, t);
    for (kind, e) in edits(t) {
      ctx.states += 1;
      c14_neighbours(ctx, t, &e, &kind, &pres0);
    }
  }
  crate::clear_current_case();
}

pub fn c14_bounds(tier: &str) -> Value {
  let pool = pool(tier);
  json!({
    "engine": "E2 hist over pairs",
    "pool": pool.len(),
    "observer_prefix_alphabet": PRES.iter().map(|p| format!("{p:?}")).collect::<Vec<_>>(),
    "twin_prefix_pairs": prefixes(2).len().pow(2),
    "neighbour_prefix_pairs": prefixes(1).len().pow(2),
    "neighbours": pool.iter().map(|t| edits(t).len()).sum::<usize>(),
  })
}

// --------------------------------------------------------------------------- edits

fn edit_text(s: &str) -> Vec<(&'static str, String)> {
  let mut v = vec![("append", format!("{s}x"))];
  if !s.is_empty() {
    let mut c: Vec<char> = s.chars().collect();
    c[0] = if c[0] == 'q' { 'r' } else { 'q' };
    v.push(("change_first_char", c.into_iter().collect()));
    v.push(("drop_last_char", s.chars().take(s.chars().count() - 1).collect()));
  }
  v
}

fn edit_mapspec(m: &crate::term::MapSpec, what: &str) -> Vec<(String, crate::term::MapSpec)> {
  let mut v = Vec::new();
  let mut push = |k: &str, mm: crate::term::MapSpec| v.push((format!("{what}.{k}"), mm));
  {
    let mut x = m.clone();
    x.segs.push(Seg { gl: 9, gc: 0, orig: Some((0, 1, 0, None)) });
    push("mappings_add_segment", x);
  }
  if let Some(i) = m.segs.iter().position(|s| s.orig.is_some()) {
    let mut x = m.clone();
    if let Some(o) = x.segs[i].orig.as_mut() {
      o.2 += 1;
    }
    push("mappings_original_column", x);
  }
  if !m.sources.is_empty() {
    let mut x = m.clone();
    x.sources[0].push('2');
    push("sources_rename", x);
  }
  {
    let mut x = m.clone();
    match x.contents.as_mut() {
      Some(c) if !c.is_empty() => c[0].push('!'),
      _ => x.contents = Some(vec!["new content".into()]),
    }
    push("sources_content", x);
  }
  // all-empty tables of another shape (absent / [""] / ["", ""]) are different values: sources_content()
  // answers differently, and a serialisation that skips them does not make them one value
  if m.contents.as_ref().map_or(true, |c| c.iter().all(|s| s.is_empty())) {
    let mut x = m.clone();
    let mut c = x.contents.take().unwrap_or_default();
    c.push(String::new());
    x.contents = Some(c);
    push("sources_content_one_more_empty_entry", x);
  }
  {
    let mut x = m.clone();
    if x.names.is_empty() {
      x.names.push("nn".into());
    } else {
      x.names[0].push('2');
    }
    push("names", x);
  }
  {
    let mut x = m.clone();
    x.file = Some(match &m.file {
      Some(f) => format!("{f}2"),
      None => "file.js".into(),
    });
    push("file", x);
  }
  {
    let mut x = m.clone();
    x.debug_id = Some(match &m.debug_id {
      Some(d) => format!("{d}2"),
      None => "debug-id".into(),
    });
    push("debug_id", x);
  }
  {
    let mut x = m.clone();
    x.root = Some(match &m.root {
      Some(f) => format!("{f}2"),
      None => "root".into(),
    });
    push("source_root", x);
  }
  // one more trailing slash on an existing root ("r" -> "r/", "r/" -> "r//")
  if let Some(r) = &m.root {
    let mut x = m.clone();
    x.root = Some(format!("{r}/"));
    push("source_root_extra_slash", x);
  }
  v
}

/// All single edits of a tree, at every node.
/// Every replacement position of every ReplaceSource in `t` is on a char boundary of the text it
/// wraps, or beyond its end.
pub fn in_domain(t: &Term) -> bool {
  match t {
    Term::Concat { children, .. } => children.iter().all(in_domain),
    Term::Cached(i) | Term::Boxed(i) => in_domain(i),
    Term::Replace(i, rs) => {
      if !in_domain(i) {
        return false;
      }
      let text = model::model_text(i);
      rs.iter().all(|r| [r.start as usize, r.end as usize].iter().all(|&p| p > text.len() || text.is_char_boundary(p)))
    }
    _ => true,
  }
}

pub fn edits(t: &Term) -> Vec<(String, Term)> {
  let mut out: Vec<(String, Term)> = Vec::new();
  match t {
    Term::Raw(s) => {
      out.extend(edit_text(s).into_iter().map(|(k, x)| (format!("raw.{k}"), Term::Raw(x))));
      // same bytes held as a buffer: not equal, hashes alike by design
      out.push(("raw.kind_string_to_buffer".into(), Term::RawBuf(s.as_bytes().to_vec())));
    }
    Term::RawStr(s) => out.extend(edit_text(s).into_iter().map(|(k, x)| (format!("rawstr.{k}"), Term::RawStr(x)))),
    Term::RawBuf(b) | Term::RawBufS(b) => {
      let (tag, mk): (&str, fn(Vec<u8>) -> Term) = if matches!(t, Term::RawBuf(_)) { ("rawbuf", Term::RawBuf) } else { ("rawbufs", Term::RawBufS) };
      let mut x = b.clone();
      x.push(b'x');
      out.push((format!("{tag}.append"), mk(x)));
      let mut x = b.clone();
      x.push(0xfe);
      out.push((format!("{tag}.append_invalid_byte"), mk(x)));
      // the lossy text of the bytes held as a string leaf: same source() text, other bytes when the
      // buffer is not valid UTF-8 (then the two are different values: unequal, or else equal with
      // equal hashes and equal answers everywhere)
      {
        let lossy = String::from_utf8_lossy(b).into_owned();
        out.push((format!("{tag}.kind_buffer_to_lossy_string"), if matches!(t, Term::RawBuf(_)) { Term::Raw(lossy) } else { Term::RawStr(lossy) }));
      }
      // every byte changed to a neighbouring value (an invalid byte stays invalid: same lossy text, other bytes)
      for i in 0..b.len() {
        let mut x = b.clone();
        x[i] = if x[i] >= 0x80 { x[i] ^ 1 } else { x[i].wrapping_add(1) };
        out.push((format!("{tag}.change_byte_{i}"), mk(x)));
      }
    }
    Term::Orig(s, f) => {
      out.extend(edit_text(s).into_iter().map(|(k, x)| (format!("orig.{k}"), Term::Orig(x, f.clone()))));
      out.push(("orig.file_name".into(), Term::Orig(s.clone(), format!("{f}2"))));
    }
    Term::Sms(spec) => {
      for (k, x) in edit_text(&spec.value) {
        let mut s = (**spec).clone();
        s.value = x;
        out.push((format!("sms.value.{k}"), Term::Sms(Box::new(s))));
      }
      {
        let mut s = (**spec).clone();
        s.name.push('2');
        out.push(("sms.name".into(), Term::Sms(Box::new(s))));
      }
      for (k, m) in edit_mapspec(&spec.map, "sms.map") {
        let mut s = (**spec).clone();
        s.map = m;
        out.push((k, Term::Sms(Box::new(s))));
      }
      // options that only matter together with an inner map are still part of the value
      {
        let mut s = (**spec).clone();
        s.remove = !s.remove;
        out.push(("sms.remove_original_source".into(), Term::Sms(Box::new(s))));
        let mut s = (**spec).clone();
        s.original_source = Some(match &spec.original_source {
          Some(o) => format!("{o}z"),
          None => "zz".into(),
        });
        out.push(("sms.original_source".into(), Term::Sms(Box::new(s))));
        // the recorded content of each source of the outer map as the explicit original source (only
        // the entry of the source's own name is what an absent original_source falls back to)
        if let Some(cs) = &spec.map.contents {
          for (ci, c) in cs.iter().enumerate() {
            if !c.is_empty() && spec.original_source.as_deref() != Some(c.as_str()) {
              let mut s = (**spec).clone();
              s.original_source = Some(c.clone());
              out.push((format!("sms.original_source_is_content_of_source_{ci}"), Term::Sms(Box::new(s))));
            }
          }
        }
        // edits that change the line structure of the intermediate text (which inner mappings
        // exist at all), with and without the option that drops the intermediate file
        if let Some(o) = &spec.original_source {
          let mut cands: Vec<(&str, Option<String>)> = vec![("none", None), ("shift_lines", Some(format!("\n{o}")))];
          if let Some(i) = o.find('\n') {
            cands.push(("first_line_only", Some(o[..i].to_string())));
            cands.push(("first_line_with_break", Some(o[..=i].to_string())));
          }
          for (k, x) in cands {
            let mut s = (**spec).clone();
            s.original_source = x;
            out.push((format!("sms.original_source_{k}"), Term::Sms(Box::new(s))));
          }
        }
      }
      if let Some(inner) = &spec.inner {
        for (k, m) in edit_mapspec(inner, "sms.inner_map") {
          let mut s = (**spec).clone();
          s.inner = Some(m);
          out.push((k, Term::Sms(Box::new(s))));
        }
        let mut s = (**spec).clone();
        s.inner = None;
        out.push(("sms.drop_inner_map".into(), Term::Sms(Box::new(s))));
      }
    }
    Term::Script(_) | Term::Default(_) => {}
    Term::Concat { children, typed, add } => {
      let mk = |c: Vec<Term>| Term::Concat { children: c, typed: *typed, add: *add };
      let mut c = children.clone();
      c.push(Term::raw("x"));
      out.push(("concat.add_child_back".into(), mk(c)));
      let mut c = children.clone();
      c.insert(0, Term::raw("x"));
      out.push(("concat.add_child_front".into(), mk(c)));
      // a child that contributes no text but a source to the map
      let mut c = children.clone();
      c.push(Term::orig("", "added-empty.js"));
      out.push(("concat.add_empty_original_child".into(), mk(c)));
      let mut c = children.clone();
      c.insert(0, Term::replace(Term::orig("q", "added-emptied.js"), vec![Repl::new(0, 1, "")]));
      out.push(("concat.add_emptied_original_child".into(), mk(c)));
      for i in 0..children.len() {
        let mut c = children.clone();
        c.remove(i);
        out.push((format!("concat.remove_child_{i}"), mk(c)));
        for (k, e) in edits(&children[i]) {
          let mut c = children.clone();
          c[i] = e;
          out.push((format!("concat.child_{i}.{k}"), mk(c)));
        }
      }
      if children.len() >= 2 {
        let mut c = children.clone();
        c.swap(0, 1);
        out.push(("concat.swap_children".into(), mk(c)));
      }
      // regrouping across a ReplaceSource: the sibling that follows Replace(Concat[..], r) moves
      // into that inner ConcatSource (the replacements then apply to a different inner text)
      for i in 0..children.len().saturating_sub(1) {
        if let Term::Replace(inner, repls) = &children[i] {
          if let Term::Concat { children: ic, typed, add } = &**inner {
            let mut ic2 = ic.clone();
            ic2.push(children[i + 1].clone());
            let mut c = children.clone();
            c[i] = Term::Replace(Box::new(Term::Concat { children: ic2, typed: *typed, add: *add }), repls.clone());
            c.remove(i + 1);
            out.push((format!("concat.move_sibling_{}_into_inner_concat_of_replace", i + 1), mk(c)));
          }
        }
      }
    }
    Term::Replace(inner, repls) => {
      for (k, e) in edits(inner) {
        out.push((format!("replace.inner.{k}"), Term::Replace(Box::new(e), repls.clone())));
      }
      let mut r = repls.clone();
      r.push(Repl::new(0, 0, "N"));
      out.push(("replace.add_replacement".into(), Term::Replace(inner.clone(), r)));
      for i in 0..repls.len() {
        let mut variants: Vec<(&str, Repl)> = Vec::new();
        let base = &repls[i];
        variants.push(("end", Repl { end: base.end + 1, ..base.clone() }));
        if base.start < base.end {
          variants.push(("start", Repl { start: base.start + 1, ..base.clone() }));
        } else {
          variants.push(("start_end", Repl { start: base.start + 1, end: base.end + 1, ..base.clone() }));
        }
        // C20 lists "the range" of a replacement among the edits without restricting it: a range whose
        // end lies BEFORE its start is accepted by the library (source() re-emits the bytes in between,
        // so it differs observably from the insertion at the same start)
        if base.start == base.end && base.start > 0 {
          variants.push(("end_before_start", Repl { end: base.start - 1, ..base.clone() }));
        }
        variants.push(("content", Repl { content: format!("{}c", base.content), ..base.clone() }));
        variants.push((
          "name",
          Repl { name: if base.name.is_some() { None } else { Some("nm".into()) }, ..base.clone() },
        ));
        variants.push(("enforce", Repl { enforce: (base.enforce + 1) % 3, ..base.clone() }));
        for (k, x) in variants {
          let mut r = repls.clone();
          r[i] = x;
          out.push((format!("replace.replacement_{i}.{k}"), Term::Replace(inner.clone(), r)));
        }
        let mut r = repls.clone();
        r.remove(i);
        out.push((format!("replace.remove_replacement_{i}"), Term::Replace(inner.clone(), r)));
      }
      if repls.len() >= 2 {
        let mut r = repls.clone();
        r.swap(0, 1);
        out.push(("replace.swap_insertion_order".into(), Term::Replace(inner.clone(), r)));
      }
    }
    Term::Cached(inner) => out.extend(edits(inner).into_iter().map(|(k, e)| (format!("cached.{k}"), Term::cached(e)))),
    Term::Boxed(inner) => out.extend(edits(inner).into_iter().map(|(k, e)| (format!("boxed.{k}"), Term::boxed(e)))),
  }
  // an edit of an inner text may move a character boundary under an existing replacement: such a
  // tree is outside every property's domain (replacement positions lie on char boundaries)
  out.retain(|(_, e)| in_domain(e));
  out
}

// --------------------------------------------------------------------------- C20

fn observable(src: &dyn Source) -> Result<(String, Vec<u8>, Option<SourceMap>, Option<SourceMap>), String> {
  observe::guarded(|| {
    (
      src.source().into_owned(),
      src.buffer().into_owned(),
      src.map(&MapOptions::new(true)),
      src.map(&MapOptions::new(false)),
    )
  })
}

pub fn c20_pair(ctx: &mut Ctx, t: &Term, e: &Term, kind: &str) {
  c20_pair_built(ctx, t, e, kind);
  if t.any(&|x| matches!(x, Term::Sms(_))) {
    let k2 = format!("{kind}+shared_map_buffers");
    crate::term::with_shared_map_buffers(|| c20_pair_built(ctx, t, e, &k2));
  }
}

fn c20_pair_built(ctx: &mut Ctx, t: &Term, e: &Term, kind: &str) {
  ctx.evaluations += 1;
  ctx.transitions += 1;
  let case = || json!({"edit": kind, "term": serde_json::to_value(t).unwrap(), "edited": serde_json::to_value(e).unwrap()});
  let (a, b) = (t.build(), e.build());
  let (oa, ob) = match (observable(a.as_ref()), observable(b.as_ref())) {
    (Ok(x), Ok(y)) => (x, y),
    (Err(p), _) | (_, Err(p)) => {
      ctx.violation("panic", kind.to_string(), None, case, t.size(), format!("observer panicked: {p}"));
      return;
    }
  };
  // hash and equality are taken on fresh values, never observed
  let (a2, b2) = (t.build(), e.build());
  let (ha, hb) = (hash_dyn(a2.as_ref()), hash_dyn(b2.as_ref()));
  let eq = &a2 == &b2;
  ctx.outcome(&(ha, hb));
  if oa != ob {
    ctx.nontrivial += 1;
    ctx.count(&format!("observable_edit:{}", kind.split('.').last().unwrap_or(kind)));
    let what = if oa.0 != ob.0 { "source()" } else if oa.1 != ob.1 { "buffer()" } else if oa.2 != ob.2 { "map(columns)" } else { "map(lines)" };
    if eq {
      ctx.violation("observably_different_but_equal", kind.to_string(), None, case, t.size(), format!("edit {kind} changes {what} but the two values compare equal"));
    }
    if ha.0 == hb.0 || ha.1 == hb.1 {
      ctx.violation(
        "observably_different_same_hash",
        kind.to_string(),
        crate::findings::classify_hash_collision(kind),
        case,
        t.size(),
        format!("edit {kind} changes {what} but the hashes agree (sip {:x}/{:x}, fx {:x}/{:x})", ha.0, hb.0, ha.1, hb.1),
      );
    }
  } else {
    ctx.count("edit_without_observable_change");
  }
  ctx.traces_validated += 1;
}

pub fn pool_hash_digest(pool: &[Term]) -> u64 {
  use std::hash::{Hash, Hasher};
  let mut h = rustc_hash::FxHasher::default();
  for t in pool {
    hash_dyn(t.build().as_ref()).hash(&mut h);
  }
  h.finish()
}

pub fn c20_staged_concat(ctx: &mut Ctx, t: &Term) {
  if let Some((plain, builds)) = staged_concat_builds(t) {
    let h_plain = hash_dyn(plain.as_ref());
    for (how, built) in builds {
      ctx.evaluations += 1;
      ctx.count("staged_concat_builds");
      match built {
        Ok(b) => {
          if hash_dyn(b.as_ref()) != h_plain {
            ctx.violation("hash_depends_on_build_history", String::new(), None, || json!({"kind": "staged_concat", "term": serde_json::to_value(t).unwrap(), "observer": how}), t.size(), format!("ConcatSource built by add() with {how}: hash differs from the same children added without observing (its text is the full text, its hash is not)"));
          }
        }
        Err(e) => ctx.violation("panic", e.clone(), None, || json!({"kind": "staged_concat", "term": serde_json::to_value(t).unwrap(), "observer": how}), t.size(), e),
      }
    }
  }
}

pub fn c20_worker(tier: &str, k: usize, n: usize, ctx: &mut Ctx) {
  let pool = pool(tier);
  let mut st = Striper::new(k, n);
  // reproducibility: every worker process hashes the whole pool; the parent compares the digests
  let digest = pool_hash_digest(&pool);
  ctx.notes.push(format!("pool_hash_digest={digest:016x}"));
  // ... and so do four threads of this process
  let digests: Vec<u64> = std::thread::scope(|s| {
    let hs: Vec<_> = (0..4).map(|_| s.spawn(|| pool_hash_digest(&pool))).collect();
    hs.into_iter().map(|h| h.join().unwrap()).collect()
  });
  ctx.transitions += 5 * pool.len() as u64;
  if digests.iter().any(|d| *d != digest) {
    ctx.violation("hash_differs_between_threads", String::new(), None, || json!({"pool": pool.len()}), 0, format!("{digests:x?} vs {digest:x}"));
  }
  // ... and after every observer prefix
  let pres = prefixes(2);
  for t in &pool {
    if !st.mine() {
      continue;
    }
    crate::set_current_case(t);
    ctx.begin_case(|| serde_json::to_string(t).unwrap());
    ctx.states += 1;
    let h_ref = hash_dyn(t.build().as_ref());
    for p in &pres {
      ctx.evaluations += 1;
      match apply_prefix(t.build(), p) {
        Ok(a) => {
          if hash_dyn(a.as_ref()) != h_ref {
            ctx.violation("hash_depends_on_observer_history", String::new(), None, || json!({"term": serde_json::to_value(t).unwrap(), "prefix": serde_json::to_value(p).unwrap()}), t.size(), format!("after {p:?}"));
          }
        }
        Err(e) => ctx.violation("panic", e.clone(), None, || json!({"term": serde_json::to_value(t).unwrap(), "prefix": serde_json::to_value(p).unwrap()}), t.size(), e),
      }
    }
    // ... and however the tree was put together: a ConcatSource observed while it was being filled
    c20_staged_concat(ctx, t);
    // sensitivity: every single edit at every node
    for (kind, e) in edits(t) {
      // excluded by the statement / reading 6.3: the name of a SourceMapSource and debugId are
      // deliberately not hashed (equality does see them: C14)
      if kind.ends_with("sms.name") || kind.ends_with("debug_id") {
        ctx.count("edits_excluded_by_the_statement");
        continue;
      }
      ctx.states += 1;
      ctx.sample(2_000, 3, || json!({"edit": kind, "term": serde_json::to_value(t).unwrap(), "edited": serde_json::to_value(&e).unwrap()}));
      c20_pair(ctx, t, &e, &kind);
    }
    // independently generated trees: every other pool element
    for u in &pool {
      if u != t {
        c20_pair(ctx, t, u, "independent_tree");
      }
    }
  }
  let pres1 = prefixes(1);
  for t in &pool_extra(tier) {
    if !st.mine() {
      continue;
    }
    crate::set_current_case(t);
    ctx.begin_case(|| serde_json::to_string(t).unwrap());
    ctx.states += 1;
    ctx.count("extra_pool_trees");
    let h_ref = hash_dyn(t.build().as_ref());
    for p in &pres1 {
      ctx.evaluations += 1;
      match apply_prefix(t.build(), p) {
        Ok(a) => {
          if hash_dyn(a.as_ref()) != h_ref {
            ctx.violation("hash_depends_on_observer_history", String::new(), None, || json!({"term": serde_json::to_value(t).unwrap(), "prefix": serde_json::to_value(p).unwrap()}), t.size(), format!("after {p:?}"));
          }
        }
        Err(e) => ctx.violation("panic", e.clone(), None, || json!({"term": serde_json::to_value(t).unwrap(), "prefix": serde_json::to_value(p).unwrap()}), t.size(), e),
      }
    }
    for (kind, e) in edits(t) {
      if kind.ends_with("sms.name") || kind.ends_with("debug_id") {
        ctx.count("edits_excluded_by_the_statement");
        continue;
      }
      ctx.states += 1;
      c20_pair(ctx, t, &e, &kind);
    }
    for u in &pool {
      c20_pair(ctx, t, u, "independent_tree");
    }
  }
  crate::clear_current_case();
}

pub fn c20_bounds(tier: &str) -> Value {
  let pool = pool(tier);
  json!({
    "engine": "E2 hist over pairs",
    "pool": pool.len(),
    "single_edits": pool.iter().map(|t| edits(t).len()).sum::<usize>(),
    "independent_pairs": pool.len() * (pool.len() - 1),
    "hashers": ["SipHash-1-3 with fixed keys (DefaultHasher::new)", "FxHasher"],
    "reproducibility": "pool hash digest computed in each of the 16 worker processes, on 4 extra threads, and after every observer prefix of length <= 2",
  })
}

#[allow(dead_code)]
fn _b(_: &BoxSource) {}
