//! Reference base64-VLQ codec and mappings encoder/decoder written from the
//! source-map v3 description. Shares no code or tables with the crate under test.

use serde::{Deserialize, Serialize};

#[derive(Clone, Debug, PartialEq, Eq, Hash, PartialOrd, Ord, Serialize, Deserialize)]
pub struct Seg {
  pub gl: u32,
  pub gc: u32,
  /// (source index, original line, original column, name index)
  pub orig: Option<(u32, u32, u32, Option<u32>)>,
}

fn b64_char(v: u32) -> char {
  match v {
    0..=25 => (b'A' + v as u8) as char,
    26..=51 => (b'a' + (v - 26) as u8) as char,
    52..=61 => (b'0' + (v - 52) as u8) as char,
    62 => '+',
    63 => '/',
    _ => unreachable!(),
  }
}

pub fn b64_val(c: u8) -> Option<u32> {
  match c {
    b'A'..=b'Z' => Some((c - b'A') as u32),
    b'a'..=b'z' => Some((c - b'a') as u32 + 26),
    b'0'..=b'9' => Some((c - b'0') as u32 + 52),
    b'+' => Some(62),
    b'/' => Some(63),
    _ => None,
  }
}

pub fn vlq(out: &mut String, v: i64) {
  let mut n: u64 = if v < 0 { ((-v) as u64) << 1 | 1 } else { (v as u64) << 1 };
  loop {
    let mut d = (n & 31) as u32;
    n >>= 5;
    if n != 0 {
      d |= 32;
    }
    out.push(b64_char(d));
    if n == 0 {
      break;
    }
  }
}

/// Plain v3 encoder: writes every segment it is given (no dropping), relative
/// fields as the format defines. Segments must be sorted by (gl, gc).
pub fn encode_all(segs: &[Seg]) -> String {
  let mut out = String::new();
  let mut line = 1u32;
  let (mut pc, mut ps, mut pl, mut pcol, mut pn) = (0i64, 0i64, 1i64, 0i64, 0i64);
  let mut first_on_line = true;
  for s in segs {
    while line < s.gl {
      out.push(';');
      line += 1;
      pc = 0;
      first_on_line = true;
    }
    if !first_on_line {
      out.push(',');
    }
    first_on_line = false;
    vlq(&mut out, s.gc as i64 - pc);
    pc = s.gc as i64;
    if let Some((si, ol, oc, ni)) = s.orig {
      vlq(&mut out, si as i64 - ps);
      ps = si as i64;
      vlq(&mut out, ol as i64 - pl);
      pl = ol as i64;
      vlq(&mut out, oc as i64 - pcol);
      pcol = oc as i64;
      if let Some(ni) = ni {
        vlq(&mut out, ni as i64 - pn);
        pn = ni as i64;
      }
    }
  }
  out
}

/// Reference line-only encoding: first mapped segment of each line, column 0, no name.
pub fn encode_lines_only(segs: &[Seg]) -> String {
  let mut kept: Vec<Seg> = Vec::new();
  let mut last = 0u32;
  for s in segs {
    if let Some((si, ol, _oc, _)) = s.orig {
      if s.gl != last {
        last = s.gl;
        kept.push(Seg { gl: s.gl, gc: 0, orig: Some((si, ol, 0, None)) });
      }
    }
  }
  encode_all(&kept)
}

#[derive(Debug, Clone, PartialEq, Eq)]
pub enum DecodeError {
  BadChar(usize),
  BadFieldCount(usize),
  Truncated,
  Negative,
}

/// Strict v3 decoder. Original lines are 1-based in the crate's `Mapping`
/// (initial running value 1), which we mirror: the *format* has 0-based
/// lines with initial 0, the crate adds one; both sides do so uniformly.
/// Returns segments with running (absolute) values; values are i64 and must
/// stay non-negative. Empty segments (",,") are skipped.
pub fn decode(s: &str) -> Result<Vec<Seg>, DecodeError> {
  let b = s.as_bytes();
  let mut out = Vec::new();
  let mut line = 1u32;
  let (mut gc, mut si, mut ol, mut oc, mut ni) = (0i64, 0i64, 1i64, 0i64, 0i64);
  let mut fields: Vec<i64> = Vec::new();
  let mut i = 0usize;
  let flush = |fields: &mut Vec<i64>,
                   line: u32,
                   gc: &mut i64,
                   si: &mut i64,
                   ol: &mut i64,
                   oc: &mut i64,
                   ni: &mut i64,
                   out: &mut Vec<Seg>,
                   at: usize|
   -> Result<(), DecodeError> {
    match fields.len() {
      0 => {}
      1 | 4 | 5 => {
        *gc += fields[0];
        if fields.len() >= 4 {
          *si += fields[1];
          *ol += fields[2];
          *oc += fields[3];
        }
        if fields.len() == 5 {
          *ni += fields[4];
        }
        if *gc < 0 || *si < 0 || *ol < 0 || *oc < 0 || *ni < 0 {
          return Err(DecodeError::Negative);
        }
        out.push(Seg {
          gl: line,
          gc: *gc as u32,
          orig: if fields.len() >= 4 {
            Some((
              *si as u32,
              *ol as u32,
              *oc as u32,
              if fields.len() == 5 { Some(*ni as u32) } else { None },
            ))
          } else {
            None
          },
        });
      }
      _ => return Err(DecodeError::BadFieldCount(at)),
    }
    fields.clear();
    Ok(())
  };
  while i < b.len() {
    match b[i] {
      b',' => {
        flush(&mut fields, line, &mut gc, &mut si, &mut ol, &mut oc, &mut ni, &mut out, i)?;
        i += 1;
      }
      b';' => {
        flush(&mut fields, line, &mut gc, &mut si, &mut ol, &mut oc, &mut ni, &mut out, i)?;
        line += 1;
        gc = 0;
        i += 1;
      }
      _ => {
        let mut val: u128 = 0;
        let mut shift = 0u32;
        loop {
          if i >= b.len() {
            return Err(DecodeError::Truncated);
          }
          let d = b64_val(b[i]).ok_or(DecodeError::BadChar(i))?;
          i += 1;
          if shift < 120 {
            val |= ((d & 31) as u128) << shift;
          }
          shift += 5;
          if d & 32 == 0 {
            break;
          }
        }
        let neg = val & 1 == 1;
        let mag = (val >> 1) as i64;
        fields.push(if neg { -mag } else { mag });
      }
    }
  }
  flush(&mut fields, line, &mut gc, &mut si, &mut ol, &mut oc, &mut ni, &mut out, i)?;
  Ok(out)
}

/// Greatest segment on `line` with generated column <= col.
pub fn resolve<'a>(segs: &'a [Seg], line: u32, col: u32) -> Option<&'a Seg> {
  let mut best: Option<&Seg> = None;
  for s in segs {
    if s.gl == line && s.gc <= col {
      match best {
        Some(b) if b.gc > s.gc => {}
        _ => best = Some(s),
      }
    }
  }
  best
}

/// First mapped segment on `line`.
pub fn first_mapped<'a>(segs: &'a [Seg], line: u32) -> Option<&'a Seg> {
  segs.iter().find(|s| s.gl == line && s.orig.is_some())
}
