//! E1: enumeration of source-tree construction programs (alphabets + levels).

use crate::{
  model,
  refcodec::Seg,
  term::{DefaultSpec, MapSpec, Repl, ScriptSpec, SmsSpec, Term, O4},
};

pub const TEXTS_FULL: &[&str] = &["", "a", "\n", "ab\n", "a;b", "a\nb", "a\n\nb;\n", "a; {b}\n c"];
pub const TEXTS_REDUCED: &[&str] = &["", "a", "\n", "a\nb", "a;b\n"];
pub const TEXTS_MB: &[&str] = &["é", "a€\n", "𝒳;y", "é\n€b", "b;€", "€", "a\n\r\nb", "\r\nx;\r", "a;\ré"];

pub struct Striper {
  pub k: usize,
  pub n: usize,
  pub counter: usize,
}

impl Striper {
  pub fn new(k: usize, n: usize) -> Self {
    Striper { k, n, counter: 0 }
  }
  pub fn mine(&mut self) -> bool {
    let m = self.counter % self.n == self.k;
    self.counter += 1;
    m
  }
}

pub fn file_for(text: &str, all: &[&str]) -> String {
  // same name => same content
  match all.iter().position(|t| *t == text) {
    Some(i) => format!("f{i}"),
    None => format!("f_{}", text.len()),
  }
}

pub fn raw_leaves(texts: &[&str]) -> Vec<Term> {
  let mut v = Vec::new();
  for t in texts {
    v.push(Term::Raw(t.to_string()));
  }
  for t in texts.iter().take(4) {
    v.push(Term::RawStr(t.to_string()));
  }
  for t in texts.iter().skip(1).take(2) {
    v.push(Term::RawBuf(t.as_bytes().to_vec()));
    v.push(Term::RawBufS(t.as_bytes().to_vec()));
  }
  // a buffer whose text has a line break in the middle (its stream is line-oriented like the others)
  if let Some(t) = texts.iter().find(|t| t.len() > 1 && t[..t.len() - 1].contains('\n')) {
    v.push(Term::RawBuf(t.as_bytes().to_vec()));
    v.push(Term::RawBufS(t.as_bytes().to_vec()));
  }
  v
}

pub fn orig_leaves(texts: &[&str]) -> Vec<Term> {
  texts.iter().map(|t| Term::Orig(t.to_string(), file_for(t, TEXTS_FULL))).collect()
}

/// Attribution kinds for scripted / mapped leaves.
pub const K_A: O4 = (0, 1, 0, None);
pub const K_B: O4 = (1, 2, 1, Some(0));
pub const K_C: O4 = (0, 1, 1, Some(1));
pub const K_D: O4 = (1, 1, 0, None);

pub const SRC_NAMES: [&str; 2] = ["s0", "s1"];
pub const SRC_NAMES_NC: [&str; 2] = ["t0", "t1"];
pub const SRC_CONTENTS: [&str; 2] = ["ab\ncd", "xy\nab;c"];
pub const NAMES: [&str; 2] = ["n0", "n1"];

/// All sorted segment lists with <= max segments on the given positions.
pub fn seg_lists(positions: &[(u32, u32)], kinds: &[Option<O4>], max: usize) -> Vec<Vec<Seg>> {
  let mut out = vec![vec![]];
  fn rec(
    positions: &[(u32, u32)],
    kinds: &[Option<O4>],
    max: usize,
    from: usize,
    cur: &mut Vec<Seg>,
    out: &mut Vec<Vec<Seg>>,
  ) {
    if cur.len() == max {
      return;
    }
    for p in from..positions.len() {
      for k in kinds {
        cur.push(Seg { gl: positions[p].0, gc: positions[p].1, orig: *k });
        out.push(cur.clone());
        rec(positions, kinds, max, p + 1, cur, out);
        cur.pop();
      }
    }
  }
  rec(positions, kinds, max, 0, &mut vec![], &mut out);
  out
}

pub fn map_spec(segs: Vec<Seg>, with_content: bool) -> MapSpec {
  // same name => same content everywhere: content-less tables use their own names
  let mut m = MapSpec::new(
    segs,
    if with_content { &SRC_NAMES } else { &SRC_NAMES_NC },
    if with_content { Some(&SRC_CONTENTS) } else { None },
    &NAMES,
  );
  m.file = None;
  m
}

/// SourceMapSource leaves with consistent maps (segments on characters).
pub fn sms_leaves(texts: &[&str], max_segs: usize, kinds: &[Option<O4>]) -> Vec<Term> {
  let mut v = Vec::new();
  for (ti, t) in texts.iter().enumerate() {
    let (pos, _) = model::positions(t);
    for (j, segs) in seg_lists(&pos, kinds, max_segs).into_iter().enumerate() {
      // alternate content presence deterministically
      let with_content = (ti + j) % 2 == 0;
      v.push(Term::Sms(Box::new(SmsSpec {
        value: t.to_string(),
        name: format!("sms{ti}"),
        map: map_spec(segs, with_content),
        original_source: None,
        inner: None,
        remove: false,
      })));
    }
  }
  v
}

/// All compositions of `text` (by char) into 1..=max non-empty pieces.
pub fn compositions(text: &str, max: usize) -> Vec<Vec<String>> {
  let chars: Vec<char> = text.chars().collect();
  let n = chars.len();
  let mut out = Vec::new();
  if n == 0 {
    return vec![vec![]];
  }
  // choose cut points among n-1 gaps
  for mask in 0u32..(1 << (n - 1)) {
    // a chunk never continues past a line break: a cut after every '\n' is mandatory
    let forced: u32 = (0..n.saturating_sub(1)).filter(|&i| chars[i] == '\n').fold(0, |m, i| m | (1 << i));
    if mask & forced != forced {
      continue;
    }
    if ((mask & !forced).count_ones() as usize) + 1 > max {
      continue;
    }
    let mut pieces = Vec::new();
    let mut cur = String::new();
    for (i, c) in chars.iter().enumerate() {
      cur.push(*c);
      if i + 1 < n && mask & (1 << i) != 0 {
        pieces.push(std::mem::take(&mut cur));
      }
    }
    pieces.push(cur);
    out.push(pieces);
  }
  out
}

pub fn script_leaves(texts: &[&str], max_pieces: usize, kinds: &[Option<O4>], contents: bool) -> Vec<Term> {
  let mut v = Vec::new();
  for t in texts {
    for comp in compositions(t, max_pieces) {
      // all attributions per piece
      let n = comp.len();
      let total = kinds.len().pow(n as u32);
      for code in 0..total {
        let mut c = code;
        let mut pieces = Vec::new();
        for p in &comp {
          pieces.push((p.clone(), kinds[c % kinds.len()]));
          c /= kinds.len();
        }
        for lazy in [false, true] {
          v.push(Term::Script(Box::new(ScriptSpec {
            pieces: pieces.clone(),
            sources: (if contents { SRC_NAMES } else { SRC_NAMES_NC })
              .iter()
              .zip(SRC_CONTENTS)
              .map(|(n, c)| (n.to_string(), contents.then(|| c.to_string())))
              .collect(),
            names: NAMES.iter().map(|s| s.to_string()).collect(),
            lazy,
          })));
        }
      }
    }
  }
  v
}

pub fn default_leaves(texts: &[&str], kinds: &[Option<O4>]) -> Vec<Term> {
  let mut v = Vec::new();
  for t in texts {
    v.push(Term::Default(Box::new(DefaultSpec { text: t.to_string(), map: None })));
    let (pos, _) = model::positions(t);
    for segs in seg_lists(&pos, kinds, 1) {
      if segs.is_empty() {
        continue;
      }
      v.push(Term::Default(Box::new(DefaultSpec { text: t.to_string(), map: Some(map_spec(segs, true)) })));
    }
  }
  v
}

/// All (start, end) with start <= end in 0..=len+over.
pub fn ranges(len: usize, over: usize) -> Vec<(u32, u32)> {
  let mut v = Vec::new();
  for s in 0..=(len + over) {
    for e in s..=(len + over) {
      v.push((s as u32, e as u32));
    }
  }
  v
}

pub struct ReplScope<'a> {
  /// pairs also in variants where one of the two carries a name
  pub names2: bool,
  pub contents1: &'a [&'a str],
  pub contents2: &'a [&'a str],
  pub names1: bool,
  pub enforce1: bool,
  pub max: usize,
  pub over: usize,
  /// restrict to char boundaries of this text (multi-byte)
  pub text: &'a str,
}

fn on_boundary(text: &str, p: u32) -> bool {
  let p = p as usize;
  p >= text.len() || text.is_char_boundary(p)
}

/// Every replacement set of the scope, in increasing size.
pub fn for_each_replset(sc: &ReplScope, f: &mut dyn FnMut(Vec<Repl>)) {
  let rs: Vec<(u32, u32)> = ranges(sc.text.len(), sc.over)
    .into_iter()
    .filter(|(s, e)| on_boundary(sc.text, *s) && on_boundary(sc.text, *e))
    .collect();
  // singles
  for &(s, e) in &rs {
    for c in sc.contents1 {
      let names: &[Option<&str>] = if sc.names1 { &[None, Some("n"), Some("n0")] } else { &[None] };
      for nm in names {
        let enf: &[u8] = if sc.enforce1 { &[0, 1, 2] } else { &[1] };
        for &en in enf {
          let mut r = Repl::new(s, e, c).enf(en);
          r.name = nm.map(|x| x.to_string());
          f(vec![r]);
        }
      }
    }
  }
  if sc.max < 2 {
    return;
  }
  // all ordered pairs (insertion order matters for equal keys)
  for &(s1, e1) in &rs {
    for &(s2, e2) in &rs {
      for c1 in sc.contents2 {
        for c2 in sc.contents2 {
          let same = (s1, e1) == (s2, e2);
          if same {
            for (en1, en2) in [(1u8, 1u8), (2, 0), (0, 2), (1, 0)] {
              f(vec![Repl::new(s1, e1, c1).enf(en1), Repl::new(s2, e2, c2).enf(en2)]);
            }
          } else {
            f(vec![Repl::new(s1, e1, c1), Repl::new(s2, e2, c2)]);
          }
          if sc.names2 {
            f(vec![Repl::new(s1, e1, c1).named("n"), Repl::new(s2, e2, c2)]);
            f(vec![Repl::new(s1, e1, c1), Repl::new(s2, e2, c2).named("n0")]);
          }
        }
      }
    }
  }
  if sc.max < 3 {
    return;
  }
  // triples over a reduced content alphabet, unordered positions in insertion order asc
  let c3: &[&str] = &["", "X"];
  for (i1, &(s1, e1)) in rs.iter().enumerate() {
    for (i2, &(s2, e2)) in rs.iter().enumerate() {
      for (i3, &(s3, e3)) in rs.iter().enumerate() {
        if !(i1 <= i2 || i2 <= i3) {
          // keep some reversed insertion orders too, but not all 6 permutations
          continue;
        }
        let _ = i3;
        for a in c3 {
          for b in c3 {
            for c in c3 {
              f(vec![Repl::new(s1, e1, a), Repl::new(s2, e2, b), Repl::new(s3, e3, c)]);
            }
          }
        }
      }
    }
  }
}

#[derive(Clone)]
pub struct TreeScope {
  pub leaves: Vec<Term>,
  /// leaves used as Concat children / in deeper levels (reduced set)
  pub small_leaves: Vec<Term>,
  pub repl_contents1: Vec<&'static str>,
  pub repl_contents2: Vec<&'static str>,
  pub repl_names: bool,
  pub repl_max_leaf: usize,
  pub repl_max_composite: usize,
  pub concat3: bool,
  pub level3: bool,
}

/// Enumerate the trees of a scope; `visit` is called only for the stripe.
/// Returns (states generated overall, transitions = constructor applications in the stripe).
pub fn for_each_tree(sc: &TreeScope, st: &mut Striper, visit: &mut dyn FnMut(&Term)) {
  // level 0
  for l in &sc.leaves {
    if st.mine() {
      visit(l);
    }
  }
  // level 1: wrappers and concats
  let mut level1: Vec<Term> = Vec::new();
  for l in &sc.leaves {
    for t in [Term::cached(l.clone()), Term::boxed(l.clone()), Term::replace(l.clone(), vec![])] {
      if st.mine() {
        visit(&t);
      }
    }
  }
  for a in &sc.small_leaves {
    for b in &sc.small_leaves {
      let t = Term::concat(vec![a.clone(), b.clone()]);
      if st.mine() {
        visit(&t);
      }
      level1.push(t);
    }
  }
  for a in &sc.leaves {
    for b in &sc.small_leaves {
      for t in [Term::concat(vec![a.clone(), b.clone()]), Term::concat(vec![b.clone(), a.clone()])] {
        if st.mine() {
          visit(&t);
        }
      }
    }
  }
  if sc.concat3 {
    for a in &sc.small_leaves {
      for b in &sc.small_leaves {
        for c in &sc.small_leaves {
          let t = Term::concat(vec![a.clone(), b.clone(), c.clone()]);
          if st.mine() {
            visit(&t);
          }
        }
      }
    }
  }
  // Replace over leaves: all replacement sets
  for l in &sc.leaves {
    let text = model::model_text(l);
    let rs = ReplScope {
      // leaves that carry names also get pairs in which one replacement is named
      names2: sc.repl_names && matches!(l, Term::Script(_)),
      contents1: &sc.repl_contents1,
      contents2: &sc.repl_contents2,
      names1: sc.repl_names,
      enforce1: false,
      max: sc.repl_max_leaf,
      over: 2,
      text: &text,
    };
    for_each_replset(&rs, &mut |set| {
      if st.mine() {
        visit(&Term::replace(l.clone(), set));
      }
    });
  }
  // level 2: Replace over concat pairs, composites of replaces
  for c in &level1 {
    let text = model::model_text(c);
    let rs = ReplScope {
      names2: false,
      contents1: &sc.repl_contents1,
      contents2: &sc.repl_contents2,
      names1: false,
      enforce1: false,
      max: sc.repl_max_composite,
      over: 1,
      text: &text,
    };
    for_each_replset(&rs, &mut |set| {
      if st.mine() {
        visit(&Term::replace(c.clone(), set));
      }
    });
    for t in [Term::cached(c.clone()), Term::boxed(c.clone())] {
      if st.mine() {
        visit(&t);
      }
    }
    // a cache above a replacement over a multi-piece rope (replay slices rope() across pieces)
    let rs1 = ReplScope {
      names2: false,
      contents1: &["", "X", "\n"],
      contents2: &[],
      names1: false,
      enforce1: false,
      max: 1,
      over: 1,
      text: &text,
    };
    for_each_replset(&rs1, &mut |set| {
      if st.mine() {
        visit(&Term::cached(Term::replace(c.clone(), set.clone())));
      }
      // a replacement above a cache above a multi-piece rope: once warm, the cache replays its
      // map over rope(), and ReplaceSource is handed chunks that span several pieces
      if matches!(c, Term::Concat { .. }) && st.mine() {
        visit(&Term::replace(Term::cached(c.clone()), set));
      }
    });
  }
  // Concat[Replace(leaf, single), leaf] both orders; Cached(Replace); Replace(Cached)
  for l in &sc.small_leaves {
    let text = model::model_text(l);
    let rs = ReplScope {
      names2: false,
      contents1: &sc.repl_contents1,
      contents2: &[],
      names1: false,
      enforce1: false,
      max: 1,
      over: 1,
      text: &text,
    };
    for_each_replset(&rs, &mut |set| {
      let r = Term::replace(l.clone(), set.clone());
      for o in &sc.small_leaves {
        for t in [Term::concat(vec![r.clone(), o.clone()]), Term::concat(vec![o.clone(), r.clone()])] {
          if st.mine() {
            visit(&t);
          }
        }
      }
      for t in [
        Term::cached(r.clone()),
        Term::replace(Term::cached(l.clone()), set.clone()),
        Term::replace(Term::boxed(l.clone()), set.clone()),
      ] {
        if st.mine() {
          visit(&t);
        }
      }
      if sc.level3 {
        // Replace(Replace(leaf, r1), r2) with singles
        let t2 = model::model_text(&r);
        let rs2 = ReplScope {
          names2: false,
          contents1: &["", "X", "\n"],
          contents2: &[],
          names1: false,
          enforce1: false,
          max: 1,
          over: 1,
          text: &t2,
        };
        for_each_replset(&rs2, &mut |set2| {
          if st.mine() {
            visit(&Term::replace(r.clone(), set2));
          }
        });
      }
    });
  }
  // Concat[Replace(leaf, set of <= 2), other] both orders over a reduced alphabet (a composite sees the
  // GeneratedInfo a ReplaceSource returns), and Cached(Replace(leaf, set of <= 2)) (replay over rope())
  let others: Vec<Term> = sc.small_leaves.iter().filter(|t| matches!(t, Term::Raw(_) | Term::Orig(..))).step_by(3).cloned().collect();
  for l in &sc.small_leaves {
    let text = model::model_text(l);
    let rs = ReplScope {
      names2: false,
      contents1: &[],
      contents2: &["", "X", "\n"],
      names1: false,
      enforce1: false,
      max: 2,
      over: 1,
      text: &text,
    };
    for_each_replset(&rs, &mut |set| {
      if set.len() < 2 {
        return;
      }
      let r = Term::replace(l.clone(), set);
      if st.mine() {
        visit(&Term::cached(r.clone()));
      }
      for o in &others {
        for t in [Term::concat(vec![r.clone(), o.clone()]), Term::concat(vec![o.clone(), r.clone()])] {
          if st.mine() {
            visit(&t);
          }
        }
      }
    });
  }
  // a cached concatenation that ends in an empty child, inside a concatenation
  for a in &sc.small_leaves {
    for b in &sc.small_leaves {
      for e in [Term::raw(""), Term::orig("", "f0")] {
        let c = Term::cached(Term::concat(vec![a.clone(), b.clone(), e.clone()]));
        for t in [c.clone(), Term::concat(vec![c.clone(), Term::orig("a", "f1")]), Term::concat(vec![Term::raw("a"), c.clone(), Term::raw("b")])] {
          if st.mine() {
            visit(&t);
          }
        }
      }
    }
  }
  // deepest scopes only: Replace(Replace(leaf, every pair), every single) - the outer source sees the
  // columns and the end information an inner ReplaceSource computes after two corrections
  if sc.level3 && sc.repl_max_leaf >= 3 {
    for l in &sc.small_leaves {
      let text = model::model_text(l);
      let rs = ReplScope { names2: false, contents1: &[], contents2: &["", "X", "\n"], names1: false, enforce1: false, max: 2, over: 1, text: &text };
      for_each_replset(&rs, &mut |set| {
        if set.len() < 2 {
          return;
        }
        let r = Term::replace(l.clone(), set);
        let t2 = model::model_text(&r);
        let rs2 = ReplScope { names2: false, contents1: &["", "X"], contents2: &[], names1: false, enforce1: false, max: 1, over: 1, text: &t2 };
        for_each_replset(&rs2, &mut |set2| {
          if st.mine() {
            visit(&Term::replace(r.clone(), set2));
          }
        });
      });
    }
  }
  // nested concats in every grouping style
  for a in &sc.small_leaves {
    for b in &sc.small_leaves {
      for c in &sc.small_leaves {
        if !sc.concat3 {
          continue;
        }
        for (typed, add) in [(false, false), (true, false), (false, true), (true, true)] {
          let inner = Term::Concat { children: vec![a.clone(), b.clone()], typed, add };
          for t in [
            Term::Concat { children: vec![inner.clone(), c.clone()], typed, add },
            Term::Concat { children: vec![c.clone(), inner.clone()], typed, add },
          ] {
            if st.mine() {
              visit(&t);
            }
          }
        }
      }
    }
  }
}

/// Mapped leaves whose names tables differ from each other (same string under different local
/// indices, different strings under the same index, tables of different length).
pub fn named_variants() -> Vec<Term> {
  let mut v = Vec::new();
  let tables: [&[&str]; 4] = [&["n0", "n1"], &["n1", "n0"], &["m"], &["n1"]];
  for (ti, names) in tables.iter().enumerate() {
    for idx in 0..names.len() as u32 {
      let mut m = MapSpec::new(
        vec![Seg { gl: 1, gc: 0, orig: Some((0, 1, 0, Some(idx))) }, Seg { gl: 1, gc: 1, orig: Some((0, 1, 1, None)) }],
        &["s0"],
        Some(&["ab\ncd"]),
        names,
      );
      m.file = None;
      v.push(Term::Sms(Box::new(SmsSpec {
        value: "ab".into(),
        name: format!("nv{ti}{idx}"),
        map: m,
        original_source: None,
        inner: None,
        remove: false,
      })));
    }
  }
  // a named chunk of several characters whose recorded content equals the generated text
  // (a cut inside it advances the original column; the name must survive)
  {
    let m = MapSpec::new(
      vec![Seg { gl: 1, gc: 0, orig: Some((0, 1, 0, Some(1))) }, Seg { gl: 1, gc: 3, orig: Some((0, 1, 3, None)) }],
      &["w0"],
      Some(&["abcd\n"]),
      &["n0", "n1"],
    );
    v.push(Term::Sms(Box::new(SmsSpec { value: "abcd".into(), name: "nvlong".into(), map: m, original_source: None, inner: None, remove: false })));
  }
  // the same through a lazily announcing user source
  v.push(Term::Script(Box::new(ScriptSpec {
    pieces: vec![("a".into(), Some((0, 1, 0, Some(1)))), ("b".into(), Some((0, 1, 1, Some(0))))],
    sources: vec![("s0".into(), Some("ab\ncd".into()))],
    names: vec!["n1".into(), "m".into()],
    lazy: true,
  })));
  // a name table that lists the same string twice (legal): consumers that renumber names by
  // string translate index 2 to the index of the first "a"
  {
    let m = MapSpec::new(
      vec![
        Seg { gl: 1, gc: 0, orig: Some((0, 1, 0, Some(0))) },
        Seg { gl: 1, gc: 1, orig: Some((0, 1, 1, Some(1))) },
        Seg { gl: 1, gc: 2, orig: Some((0, 2, 0, Some(2))) },
      ],
      &["s0"],
      Some(&["ab\ncd"]),
      &["a", "b", "a"],
    );
    v.push(Term::Sms(Box::new(SmsSpec { value: "abc".into(), name: "nvdup".into(), map: m, original_source: None, inner: None, remove: false })));
  }
  v
}
