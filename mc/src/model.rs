//! Boring reference models: text, bytes, provenance cells, replacement splice,
//! statement starts. No code shared with the crate under test.

use crate::term::{Repl, Term};

/// Bytes of the tree, by the documented semantics only.
pub fn model_bytes(t: &Term) -> Vec<u8> {
  match t {
    Term::Raw(s) | Term::RawStr(s) | Term::Orig(s, _) => s.as_bytes().to_vec(),
    Term::RawBuf(b) | Term::RawBufS(b) => b.clone(),
    Term::Sms(s) => s.value.as_bytes().to_vec(),
    Term::Script(s) => s.text().into_bytes(),
    Term::Default(d) => d.text.as_bytes().to_vec(),
    Term::Concat { children, .. } => children.iter().flat_map(model_bytes).collect(),
    Term::Replace(inner, repls) => {
      // ReplaceSource works on the inner *text*
      splice_string(&model_text(inner), repls).into_bytes()
    }
    Term::Cached(i) | Term::Boxed(i) => model_bytes(i),
  }
}

pub fn model_text(t: &Term) -> String {
  match t {
    Term::Raw(s) | Term::RawStr(s) | Term::Orig(s, _) => s.clone(),
    Term::RawBuf(b) | Term::RawBufS(b) => String::from_utf8_lossy(b).into_owned(),
    Term::Sms(s) => s.value.clone(),
    Term::Script(s) => s.text(),
    Term::Default(d) => d.text.clone(),
    Term::Concat { children, .. } => children.iter().map(model_text).collect(),
    Term::Replace(inner, repls) => splice_string(&model_text(inner), repls),
    Term::Cached(i) | Term::Boxed(i) => model_text(i),
  }
}

/// true when every leaf holds valid UTF-8
pub fn all_utf8(t: &Term) -> bool {
  !t.any(&|x| match x {
    Term::RawBuf(b) | Term::RawBufS(b) => std::str::from_utf8(b).is_err(),
    _ => false,
  })
}

/// Order in which replacements apply: stable by (start, end, enforce, insertion).
pub fn repl_order(repls: &[Repl]) -> Vec<usize> {
  let mut idx: Vec<usize> = (0..repls.len()).collect();
  idx.sort_by_key(|&i| (repls[i].start, repls[i].end, repls[i].enforce, i));
  idx
}

/// The replacement model on a generic sequence. `emit_inner(from, to)` copies
/// inner items, `emit_repl(i, splice_point)` emits replacement i.
pub fn splice<FI: FnMut(usize, usize), FR: FnMut(usize, usize)>(
  len: usize,
  repls: &[Repl],
  mut emit_inner: FI,
  mut emit_repl: FR,
) {
  let mut pos = 0usize;
  for i in repl_order(repls) {
    let r = &repls[i];
    let start = r.start as usize;
    let end = r.end as usize;
    if pos < start {
      let to = start.min(len);
      emit_inner(pos, to);
      // note: pos itself is only advanced by `end` below, as documented
    }
    let splice_point = pos.max(start).min(len);
    emit_repl(i, splice_point);
    pos = pos.max(end).min(len);
  }
  emit_inner(pos, len);
}

pub fn splice_string(inner: &str, repls: &[Repl]) -> String {
  let out = std::cell::RefCell::new(String::new());
  splice(
    inner.len(),
    repls,
    |a, b| {
      if a < b {
        out.borrow_mut().push_str(&inner[a..b]);
      }
    },
    |i, _| out.borrow_mut().push_str(&repls[i].content),
  );
  out.into_inner()
}

#[derive(Clone, Debug, PartialEq, Eq)]
pub enum Prov {
  /// text of a raw leaf: must be unmapped
  Raw,
  /// copied from an OriginalSource
  Orig { file: String, line: u32, col: u32, stmt_start: bool, lone_newline: bool },
  /// replacement content (don't-care for C04); idx = path-unique id
  Repl,
}

#[derive(Clone, Debug, PartialEq, Eq)]
pub struct Cell {
  pub ch: char,
  pub prov: Prov,
}

/// Statement starts of an OriginalSource text, from the documented rule
/// /[^\n;{}]+[;{} \r\t]*\n?|[;{} \r\t]+\n?|\n/ — the start of every match.
pub fn token_starts(text: &str) -> Vec<bool> {
  let b: Vec<char> = text.chars().collect();
  let mut starts = vec![false; b.len()];
  let is_sep = |c: char| matches!(c, ';' | '{' | '}' | ' ' | '\r' | '\t');
  let is_stop = |c: char| matches!(c, '\n' | ';' | '{' | '}');
  let mut i = 0;
  while i < b.len() {
    starts[i] = true;
    if b[i] == '\n' {
      i += 1;
      continue;
    }
    if !is_stop(b[i]) {
      // [^\n;{}]+
      while i < b.len() && !is_stop(b[i]) {
        i += 1;
      }
      // [;{} \r\t]*
      while i < b.len() && is_sep(b[i]) {
        i += 1;
      }
    } else {
      // [;{} \r\t]+   (b[i] is one of ; { })
      while i < b.len() && is_sep(b[i]) {
        i += 1;
      }
    }
    if i < b.len() && b[i] == '\n' {
      i += 1;
    }
  }
  starts
}

/// "A character that begins a statement: the start of a line's text, or the
/// first character after a run of ';', '{', '}' and the blanks mixed into or
/// following that run." Computed directly from that sentence, independent of
/// the tokenizer above; used as the C04(c) obligation set.
pub fn statement_starts(text: &str) -> Vec<bool> {
  let b: Vec<char> = text.chars().collect();
  let mut out = vec![false; b.len()];
  let mut i = 0;
  let mut line_start = true;
  while i < b.len() {
    if line_start {
      out[i] = true;
      line_start = false;
    }
    let c = b[i];
    if c == '\n' {
      line_start = true;
      i += 1;
      continue;
    }
    if matches!(c, ';' | '{' | '}') {
      // run of ; { } and blanks mixed into or following it
      let mut j = i;
      while j < b.len() && matches!(b[j], ';' | '{' | '}' | ' ' | '\r' | '\t') {
        j += 1;
      }
      if j < b.len() && b[j] != '\n' {
        out[j] = true;
      }
      i = j;
      continue;
    }
    i += 1;
  }
  out
}

/// Cells of a tree over {Raw*, Orig, Concat, Replace, Cached, Boxed}; None when
/// the tree contains a leaf without true provenance.
pub fn cells(t: &Term) -> Option<Vec<Cell>> {
  Some(match t {
    Term::Raw(s) | Term::RawStr(s) => s.chars().map(|ch| Cell { ch, prov: Prov::Raw }).collect(),
    Term::RawBuf(b) | Term::RawBufS(b) => String::from_utf8_lossy(b)
      .chars()
      .map(|ch| Cell { ch, prov: Prov::Raw })
      .collect(),
    Term::Orig(s, f) => {
      let starts = statement_starts(s);
      let chars: Vec<char> = s.chars().collect();
      let mut out = Vec::new();
      let mut line = 1u32;
      let mut col = 0u32;
      for (i, &ch) in chars.iter().enumerate() {
        let lone = ch == '\n' && col == 0;
        out.push(Cell {
          ch,
          prov: Prov::Orig { file: f.clone(), line, col, stmt_start: starts[i], lone_newline: lone },
        });
        if ch == '\n' {
          line += 1;
          col = 0;
        } else {
          col += 1;
        }
      }
      out
    }
    Term::Sms(_) | Term::Script(_) | Term::Default(_) => return None,
    Term::Concat { children, .. } => {
      let mut out = Vec::new();
      for c in children {
        out.extend(cells(c)?);
      }
      out
    }
    Term::Replace(inner, repls) => {
      let ic = cells(inner)?;
      // ASCII only here: byte offsets == cell indices
      if ic.iter().any(|c| !c.ch.is_ascii()) {
        return None;
      }
      let out = std::cell::RefCell::new(Vec::new());
      splice(
        ic.len(),
        repls,
        |a, b| {
          if a < b {
            out.borrow_mut().extend(ic[a..b].iter().cloned());
          }
        },
        |i, _| {
          out
            .borrow_mut()
            .extend(repls[i].content.chars().map(|ch| Cell { ch, prov: Prov::Repl }))
        },
      );
      out.into_inner()
    }
    Term::Cached(i) | Term::Boxed(i) => cells(i)?,
  })
}

/// (line, col) of every char of an ASCII text plus the end position.
pub fn positions(text: &str) -> (Vec<(u32, u32)>, (u32, u32)) {
  let mut out = Vec::with_capacity(text.len());
  let mut line = 1u32;
  let mut col = 0u32;
  for ch in text.chars() {
    out.push((line, col));
    if ch == '\n' {
      line += 1;
      col = 0;
    } else {
      col += 1;
    }
  }
  (out, (line, col))
}
