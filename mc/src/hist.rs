//! E2: exhaustive enumeration of mutator/observer call histories on real
//! objects (ReplaceSource, CachedSource and its clones). Every node of the
//! history tree is a state; each is reached by replaying its history on a
//! fresh object, and the answer of its last call is compared with the
//! reference (text model / a never-observed twin / a never-cached build).

use std::hash::{Hash, Hasher};

use rspack_sources::{BoxSource, CachedSource, MapOptions, ReplaceSource, Source, SourceExt};
use serde::{Deserialize, Serialize};
use serde_json::{json, Value};

use crate::{
  engine::Ctx,
  model,
  observe::{self, MapView, Stream},
  term::{apply_repl, Repl, Term},
  trees::Striper,
};

// =========================================================================== C05

#[derive(Clone, Debug, PartialEq, Eq, Serialize, Deserialize)]
pub enum RsOp {
  Mut(Repl),
  Source,
  Rope,
  Buffer,
  Size,
  ToWriter,
  MapT,
  MapF,
  StreamT,
  StreamF,
  Hash,
  Clone,
  Debug,
}

const RS_OBSERVERS: [RsOp; 12] = [
  RsOp::Source,
  RsOp::Rope,
  RsOp::Buffer,
  RsOp::Size,
  RsOp::ToWriter,
  RsOp::MapT,
  RsOp::MapF,
  RsOp::StreamT,
  RsOp::StreamF,
  RsOp::Hash,
  RsOp::Clone,
  RsOp::Debug,
];

/// char boundaries of the text: [0, b1, b2, len]
fn bounds_of(text: &str) -> (u32, u32, u32, u32) {
  let mut b: Vec<usize> = text.char_indices().map(|(i, _)| i).collect();
  b.push(text.len());
  let g = |i: usize| *b.get(i).unwrap_or(&text.len()) as u32;
  (g(0), g(1), g(2), text.len() as u32)
}

pub fn rs_mutators(text: &str, thorough: bool) -> Vec<Repl> {
  let (b0, b1, b2, len) = bounds_of(text);
  let mut v = vec![
    Repl::new(b0, b1, "X"),
    Repl::new(b0, b1, "Y"),
    Repl::new(b1, b1, "A"),
    Repl::new(b1, b1, "B"),
    Repl::new(b1, b1, "P").enf(0),
    Repl::new(b1, b1, "Q").enf(2),
    Repl::new(b1, b2, ""),
    Repl::new(b0, len + 7, "Z"),
    Repl::new(b1, len, "é"),
    Repl::new(len + 1, len + 1, "E"),
    Repl::new(b0, b1, "W").enf(2),
    Repl::new(b0, b0, ""),
  ];
  if thorough {
    v.push(Repl::new(b2, len + 1, "\n").named("n"));
    v.push(Repl::new(b0, b2, "V").enf(0));
  }
  v
}

fn hash_of<T: Hash + ?Sized>(x: &T) -> (u64, u64) {
  let mut a = std::collections::hash_map::DefaultHasher::new();
  x.hash(&mut a);
  let mut b = rustc_hash::FxHasher::default();
  x.hash(&mut b);
  (a.finish(), b.finish())
}

pub fn hash_dyn(x: &dyn Source) -> (u64, u64) {
  let mut a = std::collections::hash_map::DefaultHasher::new();
  x.update_hash(&mut a);
  let mut b = rustc_hash::FxHasher::default();
  x.update_hash(&mut b);
  (a.finish(), b.finish())
}

fn fresh_rs(inner: &Term, muts: &[Repl]) -> ReplaceSource<BoxSource> {
  let mut r = ReplaceSource::new(inner.build());
  for m in muts {
    apply_repl(&mut r, m);
  }
  r
}

/// Run one history; report a violation if the answer of any observer differs
/// from the reference. Only the last op needs checking (every prefix is a node
/// of its own) but checking all is cheap and makes replays self-contained.
pub fn c05_history(ctx: &mut Ctx, inner: &Term, ops: &[RsOp], check_all: bool) {
  ctx.evaluations += 1;
  let inner_text = model::model_text(inner);
  let mut cur = ReplaceSource::new(inner.build());
  let mut muts: Vec<Repl> = Vec::new();
  let mut left_behind: Vec<(ReplaceSource<BoxSource>, String)> = Vec::new();
  let case = || json!({"inner": serde_json::to_value(inner).unwrap(), "ops": serde_json::to_value(ops).unwrap()});
  let n_mut = ops.iter().filter(|o| matches!(o, RsOp::Mut(_))).count();
  for (i, op) in ops.iter().enumerate() {
    let last = i + 1 == ops.len();
    ctx.transitions += 1;
    if let RsOp::Mut(m) = op {
      apply_repl(&mut cur, m);
      muts.push(m.clone());
      continue;
    }
    if !last && !check_all {
      // still execute it (it may disturb state), but skip the comparison
      let _ = observe::guarded(|| exec_rs_silent(&cur, op));
      if matches!(op, RsOp::Clone) {
        let c = cur.clone();
        let expected = model::splice_string(&inner_text, &muts);
        left_behind.push((std::mem::replace(&mut cur, c), expected));
      }
      continue;
    }
    let want_text = model::splice_string(&inner_text, &muts);
    let mut fail = |ctx: &mut Ctx, clause: &str, detail: String| {
      ctx.violation(clause, format!("{:?}", std::mem::discriminant(op)), None, case, ops.len() * 10 + n_mut, format!("after {} ops, {op:?}: {detail}", i));
    };
    let r: Result<(), String> = observe::guarded(|| match op {
      RsOp::Source => {
        let s = cur.source().into_owned();
        if s != want_text {
          fail(ctx, "source_vs_model", format!("source()={s:?}, model={want_text:?}"));
        }
      }
      RsOp::Rope => {
        let s = cur.rope().to_string();
        if s != want_text {
          fail(ctx, "rope_vs_model", format!("rope()={s:?}, model={want_text:?}"));
        }
      }
      RsOp::Buffer => {
        let b = cur.buffer().into_owned();
        if b != want_text.as_bytes() {
          fail(ctx, "buffer_vs_model", format!("buffer()={b:?}, model={want_text:?}"));
        }
      }
      RsOp::Size => {
        let n = cur.size();
        if n != want_text.len() {
          fail(ctx, "size_vs_model", format!("size()={n}, model len={}", want_text.len()));
        }
      }
      RsOp::ToWriter => {
        let mut v = Vec::new();
        let _ = cur.to_writer(&mut v);
        if v != want_text.as_bytes() {
          fail(ctx, "to_writer_vs_model", format!("wrote {v:?}, model={want_text:?}"));
        }
      }
      RsOp::MapT | RsOp::MapF => {
        let o = MapOptions::new(matches!(op, RsOp::MapT));
        let got = cur.map(&o);
        let want = fresh_rs(inner, &muts).map(&o);
        if got != want {
          fail(ctx, "map_depends_on_history", format!("map={:?}, never-observed twin={:?}", got.map(|m| m.mappings().to_string()), want.map(|m| m.mappings().to_string())));
        }
      }
      RsOp::StreamT | RsOp::StreamF => {
        let c = matches!(op, RsOp::StreamT);
        let got = observe::stream(&cur, c, false);
        let f = fresh_rs(inner, &muts);
        let want = observe::stream(&f, c, false);
        if got != want {
          fail(ctx, "stream_depends_on_history", format!("stream differs from the never-observed twin's: {:?} vs {:?}", got.map(|s| s.text()), want.map(|s| s.text())));
        } else if let Ok(s) = &got {
          if s.text().as_deref() != Some(want_text.as_str()) {
            fail(ctx, "stream_vs_model", format!("chunks join to {:?}, model={want_text:?}", s.text()));
          }
        }
      }
      RsOp::Hash => {
        let got = hash_of(&cur);
        let want = hash_of(&fresh_rs(inner, &muts));
        if got != want {
          fail(ctx, "hash_depends_on_history", format!("{got:?} vs never-observed twin {want:?}"));
        }
      }
      RsOp::Debug => {
        let got = format!("{cur:?}");
        let want = format!("{:?}", fresh_rs(inner, &muts));
        if got != want {
          fail(ctx, "debug_depends_on_history", format!("{got:?} vs {want:?}"));
        }
      }
      RsOp::Clone => {
        let c = cur.clone();
        let s = c.source().into_owned();
        if s != want_text {
          fail(ctx, "clone_source_vs_model", format!("clone.source()={s:?}, model={want_text:?}"));
        }
        if c != cur {
          fail(ctx, "clone_not_equal", "clone != original".into());
        }
        let fresh = cur.clone();
        left_behind.push((std::mem::replace(&mut cur, fresh), want_text.clone()));
      }
      RsOp::Mut(_) => unreachable!(),
    });
    if let Err(e) = r {
      ctx.violation("panic", format!("{:?}", std::mem::discriminant(op)), None, case, ops.len() * 10 + n_mut, format!("{op:?} panicked: {e}"));
      return;
    }
    // lock-step validation of the sorted-flag abstraction against the real state
    let (flag, index) = cur.verif_sorted_state();
    let observed_sorted = !matches!(op, RsOp::Mut(_)) && !matches!(op, RsOp::Clone);
    if observed_sorted && !muts.is_empty() {
      let want_index = model::repl_order(&muts);
      if !flag || index != want_index {
        // after an observer that needs the order, the cached order must be the model's order
        if !matches!(op, RsOp::MapT | RsOp::MapF if muts.is_empty()) {
          ctx.violation(
            "sorted_state_vs_model",
            format!("{:?}", std::mem::discriminant(op)),
            None,
            case,
            ops.len() * 10 + n_mut,
            format!("after {op:?}: is_sorted={flag}, index={index:?}, model order={want_index:?}"),
          );
        }
      }
    }
    ctx.traces_validated += 1;
  }
  ctx.outcome(&(model::splice_string(&inner_text, &muts), ops.last().map(|o| format!("{:?}", std::mem::discriminant(o)))));
  // originals left behind by clone still answer by their own mutator history
  for (o, expected) in &left_behind {
    match observe::guarded(|| o.source().into_owned()) {
      Ok(s) => {
        if &s != expected {
          ctx.violation("original_after_clone", String::new(), None, case, ops.len() * 10 + n_mut, format!("original answers {s:?}, expected {expected:?}"));
        }
      }
      Err(e) => ctx.violation("panic", "original_after_clone".into(), None, case, ops.len() * 10, format!("panicked: {e}")),
    }
  }
}

fn exec_rs_silent(cur: &ReplaceSource<BoxSource>, op: &RsOp) {
  match op {
    RsOp::Source => drop(cur.source()),
    RsOp::Rope => drop(cur.rope()),
    RsOp::Buffer => drop(cur.buffer()),
    RsOp::Size => drop(cur.size()),
    RsOp::ToWriter => {
      let mut v = Vec::new();
      let _ = cur.to_writer(&mut v);
    }
    RsOp::MapT => drop(cur.map(&MapOptions::new(true))),
    RsOp::MapF => drop(cur.map(&MapOptions::new(false))),
    RsOp::StreamT => drop(observe::stream(cur, true, false)),
    RsOp::StreamF => drop(observe::stream(cur, false, false)),
    RsOp::Hash => drop(hash_of(cur)),
    RsOp::Debug => drop(format!("{cur:?}")),
    RsOp::Clone | RsOp::Mut(_) => {}
  }
}

pub fn c05_inners(thorough: bool) -> Vec<Term> {
  let mut v = vec![Term::orig("abc", "f.js"), Term::orig("a\nb", "g.js"), Term::raw(""), Term::raw("é€x")];
  if thorough {
    v.push(Term::orig("a;b\n", "h.js"));
    v.push(Term::concat(vec![Term::orig("a", "f1"), Term::raw("b\n")]));
  }
  v
}

pub fn c05_depth(tier: &str) -> usize {
  if tier == "thorough" {
    6
  } else {
    5
  }
}

pub fn c05_worker(tier: &str, k: usize, n: usize, ctx: &mut Ctx) {
  let thorough = tier == "thorough";
  c05_long_sequences(ctx, k, n, if thorough { 300 } else { 96 });
  c05_far_positions(ctx, k, n, thorough);
  let depth = c05_depth(tier);
  let mut st = Striper::new(k, n);
  for inner in c05_inners(thorough) {
    let text = model::model_text(&inner);
    let mut alphabet: Vec<RsOp> = rs_mutators(&text, thorough).into_iter().map(RsOp::Mut).collect();
    alphabet.extend(RS_OBSERVERS.iter().cloned());
    // stripe on the first two ops, enumerate the rest depth-first
    let mut hist: Vec<RsOp> = Vec::new();
    fn rec(ctx: &mut Ctx, inner: &Term, alphabet: &[RsOp], hist: &mut Vec<RsOp>, depth: usize, st: &mut Striper) {
      if !hist.is_empty() {
        // a history ending in a mutator is a state too, but has no answer to compare: count it
        ctx.states += 1;
        if !matches!(hist.last(), Some(RsOp::Mut(_))) {
          crate::set_current_desc(format!("{{\"inner\":{},\"ops\":{}}}", serde_json::to_string(inner).unwrap(), serde_json::to_string(hist).unwrap()));
          ctx.begin_case(|| serde_json::to_string(hist).unwrap());
          let nm = hist.iter().filter(|o| matches!(o, RsOp::Mut(_))).count();
          if nm >= 2 && hist.len() >= 3 {
            ctx.nontrivial += 1;
          }
          ctx.sample(200_000, 3, || json!({"inner": serde_json::to_value(inner).unwrap(), "ops": serde_json::to_value(&*hist).unwrap()}));
          c05_history(ctx, inner, hist, false);
        }
      }
      if hist.len() == depth {
        return;
      }
      for op in alphabet {
        if hist.len() == 1 && !st.mine() {
          continue;
        }
        hist.push(op.clone());
        rec(ctx, inner, alphabet, hist, depth, st);
        hist.pop();
      }
    }
    // depth-1 histories belong to stripe 0 only
    for op in &alphabet {
      hist.push(op.clone());
      if k == 0 {
        // the single-op node itself
        ctx.states += 1;
        if !matches!(op, RsOp::Mut(_)) {
          c05_history(ctx, &inner, &hist, false);
        }
      }
      // children
      for op2 in &alphabet {
        if !st.mine() {
          continue;
        }
        hist.push(op2.clone());
        rec(ctx, &inner, &alphabet, &mut hist, depth, &mut Striper::new(0, 1));
        hist.pop();
      }
      hist.pop();
    }
  }
}

/// Long mutator sequences. Sort implementations switch algorithms by length (insertion sort for
/// short inputs), so stability and the cached order are also checked on a grid: 8 key patterns x
/// every length 1..=max, each replacement with a unique content, observers interleaved.
pub fn c05_long_sequences(ctx: &mut Ctx, k: usize, n: usize, max_len: usize) {
  let inner = Term::orig("abcdefgh\nij", "long.js");
  let text = model::model_text(&inner);
  let mut st = Striper::new(k, n);
  for pattern in 0..8usize {
    for len in 1..=max_len {
      for observe_every in [0usize, 7] {
        if !st.mine() {
          continue;
        }
        let mut muts: Vec<Repl> = Vec::new();
        for i in 0..len {
          let (s, e, enf) = match pattern {
            0 => (0u32, 0u32, 1u8),                                  // all equal keys
            1 => ((len - i) as u32 % 9, (len - i) as u32 % 9, 1),    // descending starts
            2 => ((i % 2) as u32 * 3, (i % 2) as u32 * 3, 1),        // two alternating keys
            3 => ((i * 5 % 7) as u32, (i * 5 % 7) as u32 + (i % 2) as u32, 1), // sawtooth, some ranges
            4 => (2, 2, (i % 3) as u8),                              // equal position, rotating enforce
            5 => ((i % 4) as u32, 9, 1),                             // overlapping to the end
            6 => (if i % 5 == 0 { 1 } else { 6 }, if i % 5 == 0 { 1 } else { 6 }, ((i + 1) % 3) as u8),
            _ => ((i as u32 * 7) % 12, (i as u32 * 7) % 12 + 1, 1), // beyond the end as well
          };
          muts.push(Repl { start: s, end: e, content: format!("<{i}>"), name: None, enforce: enf });
        }
        ctx.states += 1;
        ctx.evaluations += 1;
        ctx.transitions += len as u64;
        crate::set_current_desc(format!("{{\"long_pattern\":{pattern},\"len\":{len}}}"));
        let case = || json!({"inner": serde_json::to_value(&inner).unwrap(), "ops": muts.iter().map(|m| serde_json::to_value(RsOp::Mut(m.clone())).unwrap()).chain([json!("Source")]).collect::<Vec<_>>()});
        let r = observe::guarded(|| {
          let mut rs = ReplaceSource::new(inner.build());
          for (i, m) in muts.iter().enumerate() {
            apply_repl(&mut rs, m);
            if observe_every > 0 && i % observe_every == observe_every - 1 {
              let _ = rs.size();
            }
          }
          (rs.source().into_owned(), rs.rope().to_string(), hash_of(&rs), hash_of(&fresh_rs(&inner, &muts)))
        });
        let want = model::splice_string(&text, &muts);
        match r {
          Err(e) => ctx.violation("panic", "long".into(), None, case, len * 10, e),
          Ok((s, rope, h1, h2)) => {
            if s != want {
              ctx.violation("source_vs_model", "long sequence".into(), None, case, len * 10, format!("pattern {pattern}, {len} replacements (observer every {observe_every}): source()={s:?}, model={want:?}"));
            }
            if rope != want {
              ctx.violation("rope_vs_model", "long sequence".into(), None, case, len * 10, format!("pattern {pattern}, {len} replacements: rope()={rope:?}, model={want:?}"));
            }
            if h1 != h2 {
              ctx.violation("hash_depends_on_history", "long sequence".into(), None, case, len * 10, format!("pattern {pattern}, {len} replacements"));
            }
            ctx.nontrivial += 1;
            ctx.traces_validated += 1;
          }
        }
      }
    }
  }
}

/// Positions far beyond the text are legal (they are clamped): every pair (thorough: triple) of
/// replacements whose start / end are drawn from a ladder reaching u32::MAX, in both push orders,
/// against the text model. A sort key that packs or narrows the position fields goes wrong only here.
pub const C05_FAR_LADDER: [u32; 12] = [0, 1, 2, 3, 5, 6, 7, 1 << 30, (1 << 30) + 1, (1 << 31) + 2, u32::MAX - 1, u32::MAX];

pub fn c05_far_positions(ctx: &mut Ctx, k: usize, n: usize, thorough: bool) {
  let inner = Term::orig("abcdef", "far.js");
  let text = model::model_text(&inner);
  let mut ranges: Vec<(u32, u32)> = Vec::new();
  for (i, s) in C05_FAR_LADDER.iter().enumerate() {
    for e in &C05_FAR_LADDER[i..] {
      ranges.push((*s, *e));
    }
  }
  let mut st = Striper::new(k, n);
  let mut run = |ctx: &mut Ctx, muts: Vec<Repl>| {
    ctx.states += 1;
    ctx.evaluations += 1;
    ctx.transitions += muts.len() as u64;
    crate::set_current_desc(format!("{{\"far_positions\":{}}}", serde_json::to_string(&muts).unwrap()));
    let case = || json!({"inner": serde_json::to_value(&inner).unwrap(), "ops": muts.iter().map(|m| serde_json::to_value(RsOp::Mut(m.clone())).unwrap()).chain([json!("Source")]).collect::<Vec<_>>()});
    let r = observe::guarded(|| {
      let rs = fresh_rs(&inner, &muts);
      let streamed = observe::stream(&rs, true, false).ok().and_then(|s| s.text());
      (rs.source().into_owned(), rs.rope().to_string(), rs.size(), streamed)
    });
    let want = model::splice_string(&text, &muts);
    match r {
      Err(e) => ctx.violation("panic", "far positions".into(), None, case, muts.len(), e),
      Ok((s, rope, size, streamed)) => {
        if s != want {
          ctx.violation("source_vs_model", "far positions".into(), None, case, muts.len(), format!("replacements {:?}: source()={s:?}, model={want:?}", muts.iter().map(|m| (m.start, m.end, &m.content)).collect::<Vec<_>>()));
        } else if rope != want || size != want.len() || streamed.as_deref() != Some(&want) {
          ctx.violation("views_vs_model", "far positions".into(), None, case, muts.len(), format!("replacements {:?}: rope()={rope:?} size()={size} streamed={streamed:?}, model={want:?}", muts.iter().map(|m| (m.start, m.end, &m.content)).collect::<Vec<_>>()));
        }
        ctx.nontrivial += 1;
        ctx.traces_validated += 1;
      }
    }
  };
  for (ia, a) in ranges.iter().enumerate() {
    for (ib, b) in ranges.iter().enumerate() {
      if !st.mine() {
        continue;
      }
      for enf in [1u8, 0, 2] {
        run(ctx, vec![Repl::new(a.0, a.1, "X"), Repl::new(b.0, b.1, "y").enf(enf)]);
      }
      if thorough {
        // a third one from a coarser ladder, pushed last
        for c in ranges.iter().skip((ia + ib) % 3).step_by(3) {
          run(ctx, vec![Repl::new(a.0, a.1, "X"), Repl::new(b.0, b.1, "y"), Repl::new(c.0, c.1, "<z>")]);
        }
      }
    }
  }
}

pub fn c05_bounds(tier: &str) -> Value {
  let thorough = tier == "thorough";
  json!({
    "engine": "E2 hist: prefix tree of call histories, every node replayed on a fresh ReplaceSource",
    "depth": c05_depth(tier),
    "inner_sources": c05_inners(thorough).iter().map(model::model_text).collect::<Vec<_>>(),
    "mutators": rs_mutators("abc", thorough).len(),
    "observers": RS_OBSERVERS.len(),
    "mutator_alphabet_on_abc": serde_json::to_value(rs_mutators("abc", thorough)).unwrap(),
    "far_positions": format!("every ordered pair{} of replacements with start <= end drawn from the ladder {:?} (78 ranges), second one with each enforce value; source / rope / size / streamed text against the model", if thorough { " (and triples with every third range)" } else { "" }, C05_FAR_LADDER),
    "long_sequences": format!("8 key patterns (all equal, descending, alternating, sawtooth, rotating enforce, overlapping, mixed, beyond the end) x every length 1..={} x observers never / every 7th push", if thorough { 300 } else { 96 }),
  })
}

// =========================================================================== C10

#[derive(Clone, Copy, Debug, PartialEq, Eq, Hash, Serialize, Deserialize)]
pub enum CsCall {
  Source,
  Buffer,
  Size,
  Rope,
  Hash,
  MapT,
  MapF,
  StreamTN,
  StreamFN,
  StreamTF,
  StreamFF,
}

const CS_CALLS: [CsCall; 11] = [
  CsCall::Source,
  CsCall::Buffer,
  CsCall::Size,
  CsCall::Rope,
  CsCall::Hash,
  CsCall::MapT,
  CsCall::MapF,
  CsCall::StreamTN,
  CsCall::StreamFN,
  CsCall::StreamTF,
  CsCall::StreamFF,
];

#[derive(Clone, Copy, Debug, PartialEq, Eq, Hash, Serialize, Deserialize)]
pub enum CsOp {
  /// call on handle 0 (the original) or 1 (the clone)
  Call(u8, CsCall),
  /// create handle 1 by cloning handle 0
  Clone,
}

/// Attribution answer: per character (columns) or per line (no columns).
type AttrVec = Vec<Option<(String, u32, u32, Option<String>)>>;

#[derive(Clone, Debug, PartialEq, Eq)]
pub enum Answer {
  Text(String),
  Bytes(Vec<u8>),
  Size(usize),
  Hash((u64, u64)),
  /// (is_some, attribution)
  Map(bool, AttrVec),
  /// (generated info, attribution, reassembled text if any)
  Stream((u32, u32), AttrVec, Option<String>),
  Panic(String),
}

fn attr_from_map(m: &Option<MapView>, text: &str, columns: bool) -> AttrVec {
  let (pos, _) = model::positions(text);
  if columns {
    pos.iter().map(|&(l, c)| m.as_ref().and_then(|m| m.resolve(l, c)).map(|a| a.no_content())).collect()
  } else {
    pos.iter().map(|&(l, _)| m.as_ref().and_then(|m| m.resolve_line(l)).map(|a| (a.file, a.line, 0, None))).collect()
  }
}

fn attr_from_stream(s: &Stream, text: &str, columns: bool) -> AttrVec {
  let (pos, _) = model::positions(text);
  let views = s.views();
  if columns {
    pos
      .iter()
      .map(|&(l, c)| {
        let mut best: Option<&observe::ChunkView> = None;
        for v in &views {
          if v.gl == l && v.gc <= c {
            match best {
              Some(b) if b.gc > v.gc => {}
              _ => best = Some(v),
            }
          }
        }
        best.and_then(|v| v.attr.as_ref()).map(|a| a.no_content())
      })
      .collect()
  } else {
    pos
      .iter()
      .map(|&(l, _)| views.iter().find(|v| v.gl == l && v.attr.is_some()).and_then(|v| v.attr.as_ref()).map(|a| (a.file.clone(), a.line, 0, None)))
      .collect()
  }
}

pub fn answer(src: &dyn Source, call: CsCall, text: &str) -> Answer {
  let r = observe::guarded(|| match call {
    CsCall::Source => Answer::Text(src.source().into_owned()),
    CsCall::Rope => Answer::Text(src.rope().to_string()),
    CsCall::Buffer => Answer::Bytes(src.buffer().into_owned()),
    CsCall::Size => Answer::Size(src.size()),
    CsCall::Hash => Answer::Hash(hash_dyn(src)),
    CsCall::MapT | CsCall::MapF => {
      let c = call == CsCall::MapT;
      let m = src.map(&MapOptions::new(c));
      let mv = m.as_ref().map(|m| MapView::of(m).unwrap());
      Answer::Map(m.is_some(), attr_from_map(&mv, text, c))
    }
    CsCall::StreamTN | CsCall::StreamFN | CsCall::StreamTF | CsCall::StreamFF => {
      let c = matches!(call, CsCall::StreamTN | CsCall::StreamTF);
      let f = matches!(call, CsCall::StreamTF | CsCall::StreamFF);
      match observe::stream(src, c, f) {
        Ok(s) => Answer::Stream(s.info, attr_from_stream(&s, text, c), if f { None } else { s.text() }),
        Err(e) => Answer::Panic(e),
      }
    }
  });
  r.unwrap_or_else(Answer::Panic)
}

pub struct CsReference {
  pub text: String,
  pub answers: Vec<Answer>,
}

/// What the wrapped source answers, from fresh never-cached builds.
pub fn cs_reference(wrapped: &Term) -> CsReference {
  let text = model::model_text(wrapped);
  let answers = CS_CALLS
    .iter()
    .map(|c| {
      let fresh = wrapped.build();
      let mut a = answer(fresh.as_ref(), *c, &text);
      if let (CsCall::Hash, Answer::Hash(_)) = (c, &a) {
        // the hash of a CachedSource is its own (memoised FxHash of the inner); the reference is a fresh CachedSource
        a = Answer::Hash(hash_of(&CachedSource::new(wrapped.build())));
      }
      a
    })
    .collect();
  CsReference { text, answers }
}

type Snapshot = (Vec<(bool, bool, Option<String>, usize)>, Option<u64>);

pub fn c10_history(ctx: &mut Ctx, wrapped: &Term, reference: &CsReference, ops: &[CsOp], check_all: bool) {
  ctx.evaluations += 1;
  let h0: CachedSource<BoxSource> = CachedSource::new(wrapped.build());
  let mut h1: Option<CachedSource<BoxSource>> = None;
  let case = || json!({"wrapped": serde_json::to_value(wrapped).unwrap(), "ops": serde_json::to_value(ops).unwrap()});
  let mut prev_snap: Snapshot = h0.verif_cache_snapshot();
  for (i, op) in ops.iter().enumerate() {
    ctx.transitions += 1;
    let last = i + 1 == ops.len();
    match op {
      CsOp::Clone => {
        h1 = Some(h0.clone());
      }
      CsOp::Call(h, call) => {
        let handle: &CachedSource<BoxSource> = if *h == 0 { &h0 } else { h1.as_ref().expect("clone before use") };
        let got = answer(handle, *call, &reference.text);
        if last || check_all {
          let want = &reference.answers[CS_CALLS.iter().position(|c| c == call).unwrap()];
          // A map whose segments lie behind the end of their lines: text-less streaming (map() of a
          // composite) forwards such segments, streaming with text has no chunk for them, so one fill
          // path stores Some(map attributing nothing) and the other None. C10 compares attribution,
          // and both attribute nothing: presence alone is not compared for these trees (DESIGN 6.8).
          let presence_only = match (&got, want) {
            (Answer::Map(a, x), Answer::Map(b, y)) => a != b && x.iter().all(|e| e.is_none()) && y.iter().all(|e| e.is_none()) && has_segment_beyond_its_line(wrapped),
            _ => false,
          };
          if presence_only {
            ctx.count("presence_only_difference_on_segments_beyond_their_line");
          } else if &got != want {
            let clause = match (&got, want) {
              (Answer::Panic(_), _) => "panic",
              (Answer::Stream(a, ..), Answer::Stream(b, ..)) if a != b => "generated_info",
              (Answer::Stream(..), _) => "stream_attribution",
              (Answer::Map(a, _), Answer::Map(b, _)) if a != b => "map_presence",
              (Answer::Map(..), _) => "map_attribution",
              (Answer::Hash(_), _) => "hash",
              _ => "content",
            };
            // KF1 seen through the cache: the wrapped pass-through SourceMapSource says Some(map) although
            // nothing is mapped; a CachedSource filled by streaming answers None
            let key = match (&got, want) {
              (Answer::Map(false, _), Answer::Map(true, w)) if w.iter().all(|a| a.is_none()) => {
                crate::findings::classify_map_presence(wrapped, true).map(|k| format!("{k}-seen-through-cache"))
              }
              _ => None,
            };
            ctx.violation(
              clause,
              format!("{call:?}"),
              key,
              case,
              ops.len() * 4 + wrapped.size(),
              format!("after {i} calls, {call:?} on handle {h}: got {}, the wrapped source answers {}", brief(&got), brief(want)),
            );
          }
          ctx.traces_validated += 1;
        }
      }
    }
    // cache entries are write-once: every entry of the previous snapshot is still there, unchanged (value and storage)
    let snap = h0.verif_cache_snapshot();
    for e in &prev_snap.0 {
      if !snap.0.contains(e) {
        ctx.violation(
          "cache_entry_changed",
          format!("{op:?}"),
          None,
          case,
          ops.len() * 4 + wrapped.size(),
          format!("after {op:?}: entry (columns={}, final={}) changed or vanished: before {:?}, now {:?}", e.0, e.1, prev_snap.0, snap.0),
        );
      }
    }
    if prev_snap.1.is_some() && snap.1 != prev_snap.1 {
      ctx.violation("cached_hash_changed", String::new(), None, case, ops.len() * 4, format!("{:?} -> {:?}", prev_snap.1, snap.1));
    }
    if last {
      let shape: Vec<(bool, bool, bool)> = snap.0.iter().map(|e| (e.0, e.1, e.2.is_some())).collect();
      ctx.outcome(&(shape, snap.1.is_some()));
    }
    prev_snap = snap;
  }
}

fn brief(a: &Answer) -> String {
  let s = format!("{a:?}");
  if s.len() > 300 {
    format!("{}…", &s[..300])
  } else {
    s
  }
}

/// Some SourceMapSource in `t` (no inner map) has a mapped segment at or behind the end of its line
/// or behind the last line of its text.
pub fn has_segment_beyond_its_line(t: &Term) -> bool {
  t.any(&|x| match x {
    Term::Sms(s) if s.inner.is_none() && s.map.raw_mappings.is_none() => {
      let lines: Vec<&str> = s.value.split_inclusive('\n').collect();
      s.map.segs.iter().any(|g| g.orig.is_some() && lines.get(g.gl as usize - 1).map_or(true, |l| g.gc as usize >= l.len()))
    }
    _ => false,
  })
}

pub fn c10_pool(tier: &str) -> Vec<Term> {
  use crate::trees::{K_A, K_B};
  let o = |t: &str| Term::orig(t, &crate::trees::file_for(t, crate::trees::TEXTS_FULL));
  let sms = crate::trees::sms_leaves(&["ab\n", "a\nb"], 2, &[None, Some(K_A), Some(K_B)]);
  let scr = crate::trees::script_leaves(&["a\nb"], 2, &[None, Some(K_A), Some(K_B)], true);
  let mut v = vec![
    Term::raw(""),
    Term::raw("a\nb"),
    Term::RawBuf(b"a\n".to_vec()),
    o(""),
    o("a"),
    o("a\n\nb;\n"),
    o("a; {b}\n c"),
    Term::concat(vec![o("a;b"), Term::raw("x")]),
    Term::concat(vec![o("a\nb"), Term::raw("x\ny"), o("a")]),
    Term::concat(vec![Term::raw("x"), o("a\nb")]),
    Term::replace(o("a\n\nb;\n"), vec![Repl::new(1, 3, "")]),
    Term::replace(o("a;b"), vec![Repl::new(1, 1, "X\nY").named("n"), Repl::new(2, 9, "")]),
    Term::replace(Term::raw("a\nb"), vec![Repl::new(0, 1, "q")]),
    Term::cached(o("a\nb")),
    Term::concat(vec![Term::cached(o("a")), Term::raw("b")]),
    sms[5].clone(),
    sms[17].clone(),
    sms[40].clone(),
    sms[60].clone(),
    scr[3].clone(),
    scr[14].clone(),
    Term::concat(vec![sms[22].clone(), Term::raw("z")]),
    Term::replace(sms[30].clone(), vec![Repl::new(1, 2, "")]),
    Term::boxed(o("a;b")),
  ];
  // more shapes (every 6th mapped leaf, scripted sources, named variants, deeper composites)
  v.extend(sms.iter().step_by(6).cloned());
  v.extend(scr.iter().step_by(9).cloned());
  v.extend(crate::trees::named_variants());
  v.push(crate::c09::example_combined());
  v.push(Term::concat(vec![o("a;b\n"), Term::replace(Term::raw("xy\nz"), vec![Repl::new(1, 3, "Q")]), o("a")]));
  v.push(Term::replace(Term::concat(vec![o("a\nb"), o("a;b")]), vec![Repl::new(2, 4, "\n"), Repl::new(0, 0, "//")]));
  v.push(Term::concat(vec![Term::cached(Term::concat(vec![o("a"), Term::raw("b"), Term::raw("")])), o("a\nb")]));
  v.push(Term::boxed(Term::replace(o("a; {b}\n c"), vec![Repl::new(3, 5, ""), Repl::new(3, 4, "W").named("w")])));
  // a map whose only segment lies behind the end of its line: no character is mapped with columns,
  // the line is attributed without (an answer for one column setting must not serve the other)
  {
    use crate::refcodec::Seg;
    let far = Term::sms("ab\ncd\n", "far.js", crate::trees::map_spec(vec![Seg { gl: 1, gc: 5, orig: Some(K_A) }, Seg { gl: 2, gc: 7, orig: Some(K_B) }], true));
    v.push(Term::concat(vec![Term::raw("x"), far.clone()]));
    v.push(Term::concat(vec![far.clone(), Term::raw("y")]));
    v.push(far);
  }
  if tier == "thorough" {
    v.extend(sms.iter().step_by(7).cloned());
    v.extend(scr.iter().step_by(5).cloned());
    v.push(Term::replace(Term::concat(vec![o("a\nb"), o("a;b")]), vec![Repl::new(2, 4, "\n")]));
    // a SourceMapSource with an inner map
    v.push(crate::c09::example_combined());
  }
  v.sort();
  v.dedup();
  v
}

pub fn c10_depth(tier: &str) -> usize {
  if tier == "thorough" {
    5
  } else {
    4
  }
}

fn cs_alphabet(has_clone: bool, reduced: bool) -> Vec<CsOp> {
  let mut v = Vec::new();
  for c in CS_CALLS {
    if reduced && matches!(c, CsCall::Buffer | CsCall::Rope | CsCall::Size) {
      continue;
    }
    v.push(CsOp::Call(0, c));
  }
  if has_clone {
    for c in CS_CALLS {
      if matches!(c, CsCall::Buffer | CsCall::Rope | CsCall::Size | CsCall::Source) {
        continue; // content views of a clone share nothing with the cache
      }
      v.push(CsOp::Call(1, c));
    }
  } else {
    v.push(CsOp::Clone);
  }
  v
}

pub fn c10_worker(tier: &str, k: usize, n: usize, ctx: &mut Ctx) {
  let depth = c10_depth(tier);
  let reduced = tier == "thorough"; // depth 5 over the map/stream/hash alphabet
  let mut st = Striper::new(k, n);
  for wrapped in c10_pool(tier) {
    let reference = cs_reference(&wrapped);
    let mut hist: Vec<CsOp> = Vec::new();
    fn rec(ctx: &mut Ctx, wrapped: &Term, reference: &CsReference, hist: &mut Vec<CsOp>, depth: usize, reduced: bool, st: &mut Striper) {
      if !hist.is_empty() {
        ctx.states += 1;
        if matches!(hist.last(), Some(CsOp::Call(..))) {
          crate::set_current_desc(format!("{{\"wrapped\":{},\"ops\":{}}}", serde_json::to_string(wrapped).unwrap(), serde_json::to_string(hist).unwrap()));
          ctx.begin_case(|| serde_json::to_string(hist).unwrap());
          let fills = hist.iter().filter(|o| matches!(o, CsOp::Call(_, c) if !matches!(c, CsCall::Source | CsCall::Buffer | CsCall::Size | CsCall::Rope))).count();
          if fills >= 2 {
            ctx.nontrivial += 1;
          }
          ctx.sample(300_000, 3, || json!({"wrapped": serde_json::to_value(wrapped).unwrap(), "ops": serde_json::to_value(&*hist).unwrap()}));
          c10_history(ctx, wrapped, reference, hist, false);
        }
      }
      if hist.len() == depth {
        return;
      }
      let has_clone = hist.contains(&CsOp::Clone);
      for op in cs_alphabet(has_clone, reduced) {
        if hist.len() == 1 && !st.mine() {
          continue;
        }
        hist.push(op);
        rec(ctx, wrapped, reference, hist, depth, reduced, st);
        hist.pop();
      }
    }
    for op in cs_alphabet(false, reduced) {
      hist.push(op);
      if k == 0 {
        ctx.states += 1;
        if matches!(op, CsOp::Call(..)) {
          c10_history(ctx, &wrapped, &reference, &hist, false);
        }
      }
      let has_clone = hist.contains(&CsOp::Clone);
      for op2 in cs_alphabet(has_clone, reduced) {
        if !st.mine() {
          continue;
        }
        hist.push(op2);
        rec(ctx, &wrapped, &reference, &mut hist, depth, reduced, &mut Striper::new(0, 1));
        hist.pop();
      }
      hist.pop();
    }
  }
}

pub fn c10_bounds(tier: &str) -> Value {
  json!({
    "engine": "E2 hist: prefix tree of call histories over two handles (original, clone), every node replayed on a fresh CachedSource",
    "depth": c10_depth(tier),
    "wrapped_trees": c10_pool(tier).len(),
    "calls": CS_CALLS.iter().map(|c| format!("{c:?}")).collect::<Vec<_>>(),
    "alphabet": if tier == "thorough" { "map/stream(4 modes)/hash/source on the original, map/stream/hash on the clone, clone" } else { "all 11 calls on the original, map/stream/hash on the clone, clone" },
    "oracle": "answer of the last call == answer of a fresh never-cached build of the wrapped tree (text, size, GeneratedInfo, per-position attribution); cache snapshot after every call must extend the previous one",
  })
}
