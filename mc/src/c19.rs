//! C19: unsafe code never acts outside its preconditions. A monitor over the
//! other engines: the rope BFS, the wild/general tree sweeps and the scheduler
//! programs are re-run with the guarded precondition assertions armed (and, in
//! the checked profile, std's own ub_checks). Only precondition failures and
//! aborts count here; ordinary panics belong to C16/C17.

use rspack_sources::verif::{unsafe_hits, UNSAFE_PRE_MARKER};
use serde_json::{json, Value};

use crate::{engine::Ctx, props, rope_mc, sched, term::Term, tree_checks as tc, trees::Striper};

pub const SITES: [&str; 14] = [
  "rope.get_byte_slice.same_chunk.get_unchecked",
  "rope.get_byte_slice.multi_chunk.get_unchecked",
  "rope.byte_slice_unchecked.light.str_get_unchecked",
  "rope.byte_slice_unchecked.same_chunk.get_unchecked",
  "rope.byte_slice_unchecked.same_chunk.str_get_unchecked",
  "rope.byte_slice_unchecked.multi_chunk.get_unchecked",
  "rope.byte_slice_unchecked.multi_chunk.str_get_unchecked_from",
  "rope.byte_slice_unchecked.multi_chunk.str_get_unchecked_to",
  "with_indices.substring.byte_slice_unchecked",
  "helpers.str.byte_slice_unchecked",
  "encoder.full.from_utf8_unchecked",
  "encoder.lines.from_utf8_unchecked",
  "replace.stream_chunks.transmute_replacement",
  "cached.stream_chunks.transmute_map",
];

fn absorb(ctx: &mut Ctx, mut sub: Ctx, part: &str) {
  ctx.evaluations += sub.evaluations;
  ctx.states += sub.states;
  ctx.transitions += sub.transitions;
  ctx.nontrivial += sub.nontrivial;
  ctx.traces_validated += sub.traces_validated;
  ctx.add(&format!("{part}: cases"), sub.evaluations);
  for h in std::mem::take(&mut sub.outcomes) {
    ctx.outcomes.insert(h);
  }
  for v in sub.violations {
    if v.detail.contains(UNSAFE_PRE_MARKER) || v.clause == "cached_map_replaced" {
      let mut v = v;
      v.clause = format!("{part}:{}", if v.clause == "cached_map_replaced" { "lifetime_extended_map_replaced" } else { "unsafe_precondition" });
      ctx.violations.push(v);
    } else {
      ctx.count(&format!("{part}: other failures left to their own property"));
    }
  }
  for s in sub.samples.into_iter().take(1) {
    ctx.samples.push(json!({"part": part, "case": s}));
  }
  for n in sub.notes {
    if n.starts_with("MACHINERY") {
      ctx.notes.push(n);
    }
  }
}

pub fn worker(tier: &str, k: usize, n: usize, ctx: &mut Ctx) {
  // (a) all rope programs of C16
  let mut sub = Ctx::default();
  rope_mc::worker(tier, k, n, &mut sub);
  absorb(ctx, sub, "rope");
  // (b) source trees of C01 with multi-byte text and wild maps, plus combined maps and replay through caches
  let mut sub = Ctx::default();
  let all = |_: &Term| true;
  props::sweep(&mut sub, &props::wild_scope(tier), k, n, &all, &mut |c, t| tc::all_methods_return(c, t));
  let mut sc = props::general_scope("quick");
  if tier != "thorough" {
    sc.repl_max_leaf = 1;
    sc.repl_max_composite = 1;
  }
  props::sweep(&mut sub, &sc, k, n, &all, &mut |c, t| {
    tc::all_methods_return(c, t);
    // replay from a filled cache slices multi-chunk ropes through the unchecked paths
    let w = Term::cached(t.clone());
    crate::set_current_case(&w);
    tc::cached_replay_twice(c, &w);
  });
  {
    let mut st = Striper::new(k, n);
    props::for_each_wild_map_leaf(tier, &mut st, &mut |t| {
      for w in props::wild_contexts(t) {
        crate::set_current_case(&w);
        sub.states += 1;
        tc::all_methods_return(&mut sub, &w);
      }
    });
  }
  {
    let mut st = Striper::new(k, n);
    props::for_each_far_column_tree(tier, &mut st, &mut |w| {
      crate::set_current_case(w);
      sub.states += 1;
      tc::all_methods_return(&mut sub, w);
    });
  }
  {
    let mut st = Striper::new(k, n);
    props::for_each_far_replacement_tree(tier, &mut st, &mut |w| {
      crate::set_current_case(w);
      sub.states += 1;
      tc::all_methods_return(&mut sub, w);
    });
  }
  {
    let mut st = Striper::new(k, n);
    props::for_each_wild_combined_huge_columns(&mut st, &mut |t| {
      crate::set_current_case(t);
      sub.states += 1;
      tc::all_methods_return(&mut sub, t);
    });
  }
  let mut st = Striper::new(k, n);
  let mut cnt = 0u64;
  props::for_each_wild_combined(&mut st, &mut |t| {
    cnt += 1;
    if tier != "thorough" && cnt % 7 != 0 {
      return;
    }
    crate::set_current_case(t);
    sub.states += 1;
    tc::all_methods_return(&mut sub, t);
  });
  crate::clear_current_case();
  absorb(ctx, sub, "trees");
  // (c) the schedules of C18
  let mut sub = Ctx::default();
  sched::worker(tier, k, n, &mut sub);
  absorb(ctx, sub, "schedules");
  for (site, hits) in unsafe_hits() {
    ctx.add(&format!("unsafe site reached: {site}"), hits);
  }
}

pub fn bounds(tier: &str) -> Value {
  json!({
    "engine": "monitor over E3 (rope BFS), E1 (wild + general trees, combined maps, cached replay) and E5 (schedules)",
    "unsafe_sites_asserted": SITES,
    "rope": rope_mc::bounds(tier),
    "schedules": sched::bounds(tier),
    "profile": "checked: debug-assertions on, so std's ub_checks abort on any out-of-contract get_unchecked / from_utf8_unchecked as a second oracle",
  })
}

/// Parent-side: every asserted site must have been reached, otherwise the run proves nothing about it.
pub fn unreached_sites(total: &Ctx) -> Vec<String> {
  SITES
    .iter()
    .filter(|s| total.counters.get(&format!("unsafe site reached: {s}")).copied().unwrap_or(0) == 0)
    .map(|s| s.to_string())
    .collect()
}
