//! C09: combined source maps compose outer and inner attribution.

use serde_json::{json, Value};

use crate::{
  engine::Ctx,
  model,
  observe::Attr,
  refcodec::{self, Seg},
  term::{MapSpec, SmsSpec, Term, O4},
  tree_checks::{case_json, report_panic, stream_attrs, Obs},
  trees::{self, Striper},
};

const INNER_NAME: &str = "inner.js";

fn line_of(text: &str, line: u32) -> Option<&str> {
  (line as usize).checked_sub(1).and_then(|l| text.split_inclusive('\n').nth(l))
}

struct Setup<'a> {
  outer: &'a MapSpec,
  inner: &'a MapSpec,
  original: &'a str,
  /// content the inner source itself is reported with
  inner_content: Option<String>,
  remove: bool,
}

#[derive(Debug, Clone)]
enum Expect {
  Unmapped,
  /// exact attribution
  Exact(Attr),
  /// via inner segment: file/content/line fixed, column in [lo, hi], exactness + name rule evaluated on the answer
  Inner { file: String, content: Option<String>, line: u32, lo: u32, hi: u32, must_hi: bool, must_lo: bool, inner_name: Option<String>, outer_name: Option<String> },
}

fn nonempty(s: Option<String>) -> Option<String> {
  s.filter(|c| !c.is_empty())
}

fn expect_at(su: &Setup, l: u32, c: u32) -> Expect {
  let Some(so) = refcodec::resolve(&su.outer.segs, l, c) else { return Expect::Unmapped };
  let Some((si, ol, oc, on)) = so.orig else { return Expect::Unmapped };
  let file_o = su.outer.rooted(si as usize).unwrap();
  let outer_name = on.map(|n| su.outer.names[n as usize].clone());
  if file_o != INNER_NAME {
    return Expect::Exact(Attr {
      file: file_o,
      content: nonempty(su.outer.contents.as_ref().and_then(|c| c.get(si as usize).cloned())),
      line: ol,
      col: oc,
      name: outer_name,
    });
  }
  let is = refcodec::resolve(&su.inner.segs, ol, oc);
  match is.and_then(|s| s.orig.map(|o| (s, o))) {
    Some((s, (isi, il, ic, iname))) => {
      let loc = oc - s.gc;
      let content = nonempty(su.inner.contents.as_ref().and_then(|c| c.get(isi as usize).cloned()));
      // exactness: whole preceding text of the inner chunk equals the recorded content there
      let chunk_prefix: Option<String> = line_of(su.original, ol).map(|ln| ln.chars().skip(s.gc as usize).take(loc as usize).collect());
      let (must_hi, must_lo) = match (&content, loc) {
        (_, 0) => (true, true),
        (None, _) => (false, true),
        (Some(ct), _) => {
          let have: Option<String> = line_of(ct, il).map(|ln| ln.chars().skip(ic as usize).take(loc as usize).collect());
          match (have, chunk_prefix) {
            (Some(h), Some(p)) if h.chars().count() == loc as usize && h == p => (true, false),
            _ => (false, false),
          }
        }
      };
      Expect::Inner {
        file: su.inner.rooted(isi as usize).unwrap(),
        content,
        line: il,
        lo: ic,
        hi: ic + loc,
        must_hi,
        must_lo,
        inner_name: iname.map(|n| su.inner.names[n as usize].clone()),
        outer_name,
      }
    }
    None => {
      if su.remove {
        Expect::Unmapped
      } else {
        Expect::Exact(Attr { file: INNER_NAME.to_string(), content: su.inner_content.clone(), line: ol, col: oc, name: outer_name })
      }
    }
  }
}

fn norm(a: Option<Attr>) -> Option<Attr> {
  a.map(|mut a| {
    if a.content.as_deref() == Some("") {
      a.content = None;
    }
    a
  })
}

/// Does `got` satisfy the expectation? Err(reason) otherwise.
fn satisfies(e: &Expect, got: &Option<Attr>) -> Result<(), String> {
  match (e, got) {
    (Expect::Unmapped, None) => Ok(()),
    (Expect::Unmapped, Some(_)) => Err("expected unmapped".into()),
    (Expect::Exact(a), Some(g)) if a == g => Ok(()),
    (Expect::Exact(a), _) => Err(format!("expected exactly {a:?}")),
    (Expect::Inner { .. }, None) => Err(format!("expected inner attribution {e:?}")),
    (Expect::Inner { file, content, line, lo, hi, must_hi, must_lo, inner_name, outer_name }, Some(g)) => {
      if &g.file != file || g.line != *line {
        return Err(format!("expected file {file} line {line}"));
      }
      if &g.content != content {
        return Err(format!("file {file} reported with content {:?}, inner map records {:?}", g.content, content));
      }
      if g.col < *lo || g.col > *hi {
        return Err(format!("column outside [{lo}, {hi}]"));
      }
      if *must_hi && g.col != *hi {
        return Err(format!("original content matches the preceding text: column must be {hi}"));
      }
      if *must_lo && g.col != *lo {
        return Err(format!("no recorded content: column must stay {lo}"));
      }
      // names: inner name, else outer name only if it matches the original text, else none
      let outer_matches = |at: u32| -> bool {
        match (outer_name, content) {
          (Some(n), Some(ct)) => line_of(ct, *line)
            .map(|ln| ln.chars().skip(at as usize).take(n.chars().count()).collect::<String>() == *n)
            .unwrap_or(false),
          _ => false,
        }
      };
      let want: Option<String> = if inner_name.is_some() && g.col == *lo {
        inner_name.clone()
      } else if outer_matches(g.col) {
        outer_name.clone()
      } else {
        None
      };
      if g.name != want {
        return Err(format!("name: inner {inner_name:?}, outer {outer_name:?} (matches original text: {}), expected {want:?}", outer_matches(g.col)));
      }
      Ok(())
    }
  }
}

#[allow(clippy::too_many_arguments)]
pub fn c09_case(ctx: &mut Ctx, t: &Term) {
  let Term::Sms(spec) = t else { return };
  let Some(inner) = &spec.inner else { return };
  ctx.evaluations += 1;
  let gen = spec.value.as_str();
  // the inner source's own text
  let from_outer = spec
    .map
    .sources
    .iter()
    .position(|s| crate::term::apply_root(spec.map.root.as_deref(), s) == INNER_NAME)
    .and_then(|i| spec.map.contents.as_ref().and_then(|c| c.get(i).cloned()));
  let original: String = match (&spec.original_source, &from_outer) {
    (Some(o), _) => o.clone(),
    (None, Some(o)) => o.clone(),
    (None, None) => return, // outside the domain of C09 (probed under C17)
  };
  let su = Setup { outer: &spec.map, inner, original: &original, inner_content: nonempty(Some(original.clone())), remove: spec.remove };
  let obs = match Obs::new(t) {
    Ok(o) => o,
    Err(e) => return report_panic(ctx, t, "build", &e),
  };
  let (pos, _) = model::positions(gen);
  let expects: Vec<Expect> = pos.iter().map(|&(l, c)| expect_at(&su, l, c)).collect();
  let kinds: Vec<u8> = expects
    .iter()
    .map(|e| match e {
      Expect::Unmapped => 0,
      Expect::Exact(a) if a.file == INNER_NAME => 1,
      Expect::Exact(_) => 2,
      Expect::Inner { must_hi: true, lo, hi, .. } if lo != hi => 4,
      Expect::Inner { .. } => 3,
    })
    .collect();
  ctx.outcome(&kinds);
  for k in &kinds {
    ctx.count(match k {
      0 => "pos_unmapped",
      1 => "pos_inner_source_itself",
      2 => "pos_pass_through",
      3 => "pos_via_inner_map",
      _ => "pos_via_inner_map_column_advanced",
    });
  }
  if kinds.iter().any(|k| *k >= 3) {
    ctx.nontrivial += 1;
  }
  let fail = |ctx: &mut Ctx, clause: &str, sig: String, detail: String| {
    ctx.violation(clause, sig, None, || case_json(t), spec.map.segs.len() + inner.segs.len() + gen.len(), detail);
  };
  // columns = true: map() and outside stream
  match obs.map(true) {
    Err(e) => report_panic(ctx, t, "map(true)", &e),
    Ok(m) => {
      ctx.transitions += 1;
      for (i, &(l, c)) in pos.iter().enumerate() {
        let got = norm(m.as_ref().and_then(|m| m.resolve(l, c)));
        if let Err(why) = satisfies(&expects[i], &got) {
          fail(ctx, "combined_map", format!("kind={}", kinds[i]), format!("map(true) position {l}:{c} of {gen:?}: {why}; got {got:?}"));
          break;
        }
      }
    }
  }
  match obs.stream(true, false) {
    Err(e) => report_panic(ctx, t, "stream(true)", &e),
    Ok(s) => {
      ctx.transitions += 1;
      let (views, cc) = stream_attrs(&s);
      if cc.len() == pos.len() {
        for (i, &(l, c)) in pos.iter().enumerate() {
          let got = norm(views[cc[i]].attr.clone());
          if let Err(why) = satisfies(&expects[i], &got) {
            fail(ctx, "combined_stream", format!("kind={}", kinds[i]), format!("stream(true) position {l}:{c} of {gen:?}: {why}; got {got:?}"));
            break;
          }
        }
      }
    }
  }
  // columns = false: (file, line) per output line from the first mapped outer segment
  let nlines = pos.last().map(|p| p.0).unwrap_or(0);
  let want_line = |l: u32| -> Option<(String, u32)> {
    let so = refcodec::first_mapped(&spec.map.segs, l)?;
    let (si, ol, _oc, _) = so.orig?;
    let file_o = spec.map.rooted(si as usize).unwrap();
    if file_o != INNER_NAME {
      return Some((file_o, ol));
    }
    match refcodec::first_mapped(&inner.segs, ol).and_then(|s| s.orig) {
      Some((isi, il, _, _)) => Some((inner.rooted(isi as usize).unwrap(), il)),
      None => (!spec.remove).then(|| (INNER_NAME.to_string(), ol)),
    }
  };
  match obs.map(false) {
    Err(e) => report_panic(ctx, t, "map(false)", &e),
    Ok(m) => {
      ctx.transitions += 1;
      for l in 1..=nlines {
        let got = m.as_ref().and_then(|m| m.resolve_line(l)).map(|a| (a.file, a.line));
        if got != want_line(l) {
          fail(ctx, "combined_map_lines", String::new(), format!("map(false) line {l} of {gen:?}: expected {:?}, got {got:?}", want_line(l)));
          break;
        }
      }
    }
  }
  match obs.stream(false, false) {
    Err(e) => report_panic(ctx, t, "stream(false)", &e),
    Ok(s) => {
      ctx.transitions += 1;
      let views = s.views();
      for l in 1..=nlines {
        let got = views.iter().find(|v| v.gl == l && !v.text.is_empty() && v.attr.is_some()).and_then(|v| v.attr.as_ref()).map(|a| (a.file.clone(), a.line));
        if got != want_line(l) {
          fail(ctx, "combined_stream_lines", String::new(), format!("stream(false) line {l} of {gen:?}: expected {:?}, got {got:?}", want_line(l)));
          break;
        }
      }
    }
  }
  ctx.traces_validated += 1;
}

fn outer_kinds(orig_positions: &[(u32, u32)], n_index: u32, other_index: Option<u32>) -> Vec<Option<O4>> {
  let mut k: Vec<Option<O4>> = vec![None];
  for (i, &(l, c)) in orig_positions.iter().enumerate() {
    k.push(Some((n_index, l, c, None)));
    if i % 2 == 0 {
      k.push(Some((n_index, l, c, Some(0))));
    }
  }
  if let Some(o) = other_index {
    k.push(Some((o, 1, 0, None)));
    k.push(Some((o, 2, 1, Some(1))));
  }
  k
}

pub fn worker(tier: &str, k: usize, n: usize, ctx: &mut Ctx) {
  let mut st = Striper::new(k, n);
  for_each_combined_term(tier, &mut st, &mut |t| {
    crate::set_current_case(t);
    ctx.begin_case(|| serde_json::to_string(t).unwrap());
    ctx.states += 1;
    ctx.sample(100_000, 3, || json!({"term": case_json(t)}));
    c09_case(ctx, t);
  });
  crate::clear_current_case();
}

/// The (generated text, outer map, original text, inner map, options) family of C09, also used by
/// C11. Every fifth inner list additionally comes in a variant where the inner map's first source
/// carries the NAME (and content) of one of the outer map's other sources.
pub fn for_each_combined_term(tier: &str, st: &mut Striper, visit: &mut dyn FnMut(&Term)) {
  let thorough = tier == "thorough";
  // ("o1" is also the NAME of the outer map's other source: a text is not a name)
  let gens: &[&str] = if thorough { &["ab\n", "a\nb", "abc", "a;b\nc", "o1"] } else { &["ab\n", "a\nb", "abc", "o1"] };
  // (original text, contents of the inner map's sources)
  let originals: &[&str] = &["ab\nc", "xy\nab"];
  let inner_kinds: [Option<O4>; 5] = [None, Some((0, 1, 0, None)), Some((0, 1, 1, Some(0))), Some((1, 2, 0, None)), Some((0, 2, 0, None))];
  let (max_o, max_i) = if thorough { (3, 3) } else { (2, 2) };
  // outer source tables: inner source alone / first / in the middle
  let outer_tables: Vec<(Vec<&str>, u32, Option<u32>)> =
    vec![(vec![INNER_NAME], 0, None), (vec![INNER_NAME, "o1"], 0, Some(1)), (vec!["o1", INNER_NAME, "o2"], 1, Some(0))];
  for gen in gens {
    let (gpos, _) = model::positions(gen);
    for original in originals {
      let (opos, _) = model::positions(original);
      let inner_lists = trees::seg_lists(&opos, &inner_kinds, max_i);
      for (sources, n_index, other) in &outer_tables {
        let okinds = outer_kinds(&opos, *n_index, *other);
        let outer_lists = trees::seg_lists(&gpos, &okinds, max_o);
        for osegs in &outer_lists {
          if !osegs.iter().any(|s| matches!(s.orig, Some((si, ..)) if si == *n_index)) {
            continue; // nothing points into the inner source
          }
          if !st.mine() {
            continue;
          }
          for (ii, isegs) in inner_lists.iter().enumerate() {
            for given in [true, false] {
              for remove in [false, true] {
                // inner map contents: present on even lists, absent on odd ones
                let inner_has_content = ii % 2 == 0;
                let mut im = MapSpec::new(
                  isegs.clone(),
                  &["x0", "x1"],
                  if inner_has_content { Some(&["ab\ncd", "xy\nab"]) } else { None },
                  &["in0"],
                );
                if !inner_has_content {
                  im.sources = vec!["y0".into(), "y1".into()];
                }
                let mut om = MapSpec::new(osegs.clone(), sources, None, &["ab", "zz"]);
                // the outer map records the original text for the inner source when it is not given explicitly
                let contents: Vec<String> = sources
                  .iter()
                  .map(|s| if *s == INNER_NAME { if given { String::new() } else { original.to_string() } } else { format!("content of {s}\nl2") })
                  .collect();
                om.contents = Some(contents);
                let mk = |im: MapSpec| {
                  Term::Sms(Box::new(SmsSpec {
                    value: gen.to_string(),
                    name: INNER_NAME.to_string(),
                    map: om.clone(),
                    original_source: given.then(|| original.to_string()),
                    inner: Some(im),
                    remove,
                  }))
                };
                visit(&mk(im.clone()));
                // an inner NAME with the same text as an outer name (both kinds share one name table)
                if ii % 5 == 1 && isegs.iter().any(|s| matches!(s.orig, Some((_, _, _, Some(_))))) {
                  let mut im3 = im.clone();
                  im3.names = vec!["ab".into()];
                  visit(&mk(im3));
                }
                // a source of the inner map that the outer map lists as well (same name, same content)
                if other.is_some() && ii % 5 == 0 && inner_has_content {
                  let mut im2 = im.clone();
                  im2.sources[0] = "o1".into();
                  if let Some(c) = im2.contents.as_mut() {
                    c[0] = "content of o1\nl2".into();
                  }
                  visit(&mk(im2));
                }
              }
            }
          }
        }
      }
    }
  }
}

/// Dense inner maps: one segment on (nearly) every character of a longer original text, each with
/// its own original location, so that every lookup has a unique right answer; all outer lists of
/// <= 3 segments pointing at every inner position (consecutive lookups land on different inner
/// lines, at columns before / at / after the previous one).
pub fn dense_worker(tier: &str, k: usize, n: usize, ctx: &mut Ctx) {
  let thorough = tier == "thorough";
  let mut st = Striper::new(k, n);
  let gen = "abcd";
  let (gpos, _) = model::positions(gen);
  let originals: &[&str] = if thorough { &["abcd\nefgh", "ab\ncdef\ng"] } else { &["abcd\nefgh"] };
  for original in originals {
    let (opos, _) = model::positions(original);
    // inner map variants
    let mut inners: Vec<Vec<Seg>> = Vec::new();
    // every char mapped to x0 at (line, col*2)
    inners.push(opos.iter().map(|&(l, c)| Seg { gl: l, gc: c, orig: Some((0, l, c * 2, None)) }).collect());
    // every other char unmapped
    inners.push(opos.iter().enumerate().map(|(i, &(l, c))| Seg { gl: l, gc: c, orig: if i % 2 == 0 { Some((0, l, c, None)) } else { None } }).collect());
    // second line denser than the first, names on some
    inners.push(
      opos
        .iter()
        .filter(|&&(l, c)| l > 1 || c >= 2)
        .map(|&(l, c)| Seg { gl: l, gc: c, orig: Some((if l == 1 { 1 } else { 0 }, l + 1, c + 1, if c == 0 { Some(0) } else { None })) })
        .collect(),
    );
    // first line denser than the second
    inners.push(opos.iter().filter(|&&(l, c)| l == 1 || c == 1).map(|&(l, c)| Seg { gl: l, gc: c, orig: Some((0, 3 - l, c, None)) }).collect());
    let okinds: Vec<Option<O4>> = opos.iter().filter(|p| original.chars().nth(0).is_some() && **p != (0, 0)).map(|&(l, c)| Some((0, l, c, None))).collect();
    let okinds: Vec<Option<O4>> = okinds.into_iter().filter(|o| matches!(o, Some((_, l, c, _)) if line_of(original, *l).map(|ln| (*c as usize) < ln.len()).unwrap_or(false))).collect();
    let outer_lists = trees::seg_lists(&gpos, &okinds, 3);
    for osegs in &outer_lists {
      if osegs.is_empty() || !st.mine() {
        continue;
      }
      for isegs in &inners {
        for remove in [false, true] {
          let im = MapSpec::new(isegs.clone(), &["x0", "x1"], None, &["in0"]);
          let mut im = im;
          im.sources = vec!["y0".into(), "y1".into()];
          let om = MapSpec::new(osegs.clone(), &[INNER_NAME], None, &["ab", "zz"]);
          let t = Term::Sms(Box::new(SmsSpec {
            value: gen.to_string(),
            name: INNER_NAME.to_string(),
            map: om,
            original_source: Some(original.to_string()),
            inner: Some(im),
            remove,
          }));
          crate::set_current_case(&t);
          ctx.states += 1;
          ctx.sample(400_000, 4, || json!({"family": "dense inner map", "term": case_json(&t)}));
          c09_case(ctx, &t);
        }
      }
    }
  }
  crate::clear_current_case();
}

/// Names that are not ASCII: the rule "an outer name is kept only if it matches the original text"
/// compares characters, and a multi-byte name has more bytes than characters. Outer segments with
/// every (position, name) combination over an intermediate text whose identifiers are multi-byte;
/// the inner map is the identity onto a source that records the same text.
pub fn multibyte_names_worker(_tier: &str, k: usize, n: usize, ctx: &mut Ctx) {
  let gen = "ab;";
  let original = "é=日本;x";
  let names = ["é", "日本", "日", "x", "é=", "zz"];
  let (gpos, _) = model::positions(gen);
  let ncols = original.chars().count() as u32;
  let mut okinds: Vec<Option<O4>> = vec![None];
  for c in 0..ncols {
    for ni in 0..names.len() as u32 {
      okinds.push(Some((0, 1, c, Some(ni))));
    }
  }
  let mut st = Striper::new(k, n);
  for osegs in trees::seg_lists(&gpos, &okinds, 2) {
    if osegs.is_empty() || !st.mine() {
      continue;
    }
    for sparse in [false, true] {
      // identity onto y0 (every character its own segment) / one segment per identifier start
      let isegs: Vec<Seg> = (0..ncols).filter(|c| !sparse || [0, 2, 5].contains(c)).map(|c| Seg { gl: 1, gc: c, orig: Some((0, 1, c, None)) }).collect();
      let mut im = MapSpec::new(isegs, &["y0"], None, &[]);
      im.contents = Some(vec![original.to_string()]);
      let om = MapSpec::new(osegs.clone(), &[INNER_NAME], None, &names);
      let t = Term::Sms(Box::new(SmsSpec { value: gen.to_string(), name: INNER_NAME.to_string(), map: om, original_source: Some(original.to_string()), inner: Some(im), remove: false }));
      crate::set_current_case(&t);
      ctx.states += 1;
      ctx.count("multibyte_name_cases");
      c09_case(ctx, &t);
    }
  }
  crate::clear_current_case();
}

/// The intermediate text is the original text shifted right (added indentation), so an inner
/// segment's generated column differs from its original column while the text still matches the
/// recorded content: the reported column is "inner original column + offset into the inner
/// segment", not the outer column. Every outer segment position x every placement of one or two
/// inner segments x indentation 1..=2.
pub fn shifted_identity_worker(_tier: &str, k: usize, n: usize, ctx: &mut Ctx) {
  let gen = "uvw";
  let content = "abcdef";
  let (gpos, _) = model::positions(gen);
  let mut st = Striper::new(k, n);
  for indent in 1..=2u32 {
    let original = format!("{}{}", " ".repeat(indent as usize), content);
    let ncols = original.chars().count() as u32;
    let okinds: Vec<Option<O4>> = (0..ncols).map(|c| Some((0, 1, c, None))).chain(std::iter::once(None)).collect();
    // inner maps: one segment at the start of the shifted text; two segments; a segment in the middle only
    let inners: Vec<Vec<Seg>> = vec![
      vec![Seg { gl: 1, gc: indent, orig: Some((0, 1, 0, None)) }],
      vec![Seg { gl: 1, gc: indent, orig: Some((0, 1, 0, None)) }, Seg { gl: 1, gc: indent + 3, orig: Some((0, 1, 3, None)) }],
      vec![Seg { gl: 1, gc: indent + 2, orig: Some((0, 1, 2, Some(0))) }],
      vec![Seg { gl: 1, gc: 0, orig: None }, Seg { gl: 1, gc: indent + 1, orig: Some((0, 1, 1, None)) }],
    ];
    for osegs in trees::seg_lists(&gpos, &okinds, 2) {
      if osegs.is_empty() || !st.mine() {
        continue;
      }
      for isegs in &inners {
        for with_content in [true, false] {
          let mut im = MapSpec::new(isegs.clone(), &["y0"], None, &["in0"]);
          if with_content {
            im.contents = Some(vec![content.to_string()]);
          }
          let om = MapSpec::new(osegs.clone(), &[INNER_NAME], None, &["zz"]);
          let t = Term::Sms(Box::new(SmsSpec { value: gen.to_string(), name: INNER_NAME.to_string(), map: om, original_source: Some(original.clone()), inner: Some(im), remove: false }));
          crate::set_current_case(&t);
          ctx.states += 1;
          ctx.count("shifted_identity_cases");
          c09_case(ctx, &t);
        }
      }
    }
  }
  crate::clear_current_case();
}

/// Outer names and inner-map names share ONE name table: all lists of three outer segments whose
/// names are drawn from {nn, mm, none} and that point to another source or into the inner source,
/// against inner maps whose segments carry the name "nn" (same text as an outer name), "kk" or none.
pub fn shared_name_text_worker(_tier: &str, k: usize, n: usize, ctx: &mut Ctx) {
  let gen = "abc";
  let original = "nn mm";
  let (gpos, _) = model::positions(gen);
  // outer: source 0 = other.js, source 1 = inner
  let okinds: Vec<Option<O4>> = vec![
    Some((0, 1, 0, Some(0))),
    Some((0, 1, 1, Some(1))),
    Some((0, 2, 0, None)),
    Some((1, 1, 0, None)),
    Some((1, 1, 0, Some(0))),
    Some((1, 1, 3, Some(1))),
    Some((1, 1, 3, None)),
    None,
  ];
  let inner_variants: Vec<(Vec<Seg>, Vec<&str>)> = vec![
    (vec![Seg { gl: 1, gc: 0, orig: Some((0, 1, 0, Some(0))) }, Seg { gl: 1, gc: 3, orig: Some((0, 1, 3, None)) }], vec!["nn"]),
    (vec![Seg { gl: 1, gc: 0, orig: Some((0, 1, 0, None)) }, Seg { gl: 1, gc: 3, orig: Some((0, 1, 3, Some(0))) }], vec!["mm"]),
    (vec![Seg { gl: 1, gc: 0, orig: Some((0, 1, 0, Some(1))) }, Seg { gl: 1, gc: 3, orig: Some((0, 1, 3, Some(0))) }], vec!["kk", "nn"]),
  ];
  let mut st = Striper::new(k, n);
  for osegs in trees::seg_lists(&gpos, &okinds, 3) {
    if osegs.len() < 3 || !st.mine() {
      continue;
    }
    for (isegs, inames) in &inner_variants {
      let mut im = MapSpec::new(isegs.clone(), &["y0"], None, inames);
      im.contents = Some(vec![original.to_string()]);
      let mut om = MapSpec::new(osegs.clone(), &["other.js", INNER_NAME], None, &["nn", "mm"]);
      om.contents = Some(vec!["content of other\nl2".into(), String::new()]);
      let t = Term::Sms(Box::new(SmsSpec { value: gen.to_string(), name: INNER_NAME.to_string(), map: om, original_source: Some(original.to_string()), inner: Some(im), remove: false }));
      crate::set_current_case(&t);
      ctx.states += 1;
      ctx.count("shared_name_text_cases");
      c09_case(ctx, &t);
    }
  }
  crate::clear_current_case();
}

/// Every subset of the character positions of a 2 x 6 original text as the inner map's segment
/// set (each segment with its own original location), against every ordered pair of outer
/// segments pointing anywhere into it: all relative shapes of two consecutive inner lookups
/// (same / different line, column before / at / after, dense / sparse lines).
pub fn subset_worker(tier: &str, k: usize, n: usize, ctx: &mut Ctx) {
  let original = "abcdef\nghijkl";
  let gen = "uv";
  let cols: u32 = 6;
  let positions: Vec<(u32, u32)> = (1..=2u32).flat_map(|l| (0..cols).map(move |c| (l, c))).collect();
  let step = if tier == "thorough" { 1 } else { 1 };
  let mut st = Striper::new(k, n);
  for mask in (0u32..(1 << positions.len())).step_by(step) {
    if !st.mine() {
      continue;
    }
    let isegs: Vec<Seg> = positions
      .iter()
      .enumerate()
      .filter(|(i, _)| mask & (1 << i) != 0)
      .map(|(_, &(l, c))| Seg { gl: l, gc: c, orig: Some((0, l + 2, c + 20, None)) })
      .collect();
    let mut im = MapSpec::new(isegs, &["y0"], None, &[]);
    im.sources = vec!["y0".into()];
    for &(l1, c1) in &positions {
      for &(l2, c2) in &positions {
        let osegs = vec![Seg { gl: 1, gc: 0, orig: Some((0, l1, c1, None)) }, Seg { gl: 1, gc: 1, orig: Some((0, l2, c2, None)) }];
        let om = MapSpec::new(osegs, &[INNER_NAME], None, &[]);
        let t = Term::Sms(Box::new(SmsSpec {
          value: gen.to_string(),
          name: INNER_NAME.to_string(),
          map: om,
          original_source: Some(original.to_string()),
          inner: Some(im.clone()),
          remove: (l1 + c2) % 2 == 0,
        }));
        crate::set_current_case(&t);
        ctx.states += 1;
        ctx.sample(2_000_000, 5, || json!({"family": "inner segment subsets", "term": case_json(&t)}));
        c09_case(ctx, &t);
      }
    }
  }
  crate::clear_current_case();
}

pub fn bounds(tier: &str) -> Value {
  let thorough = tier == "thorough";
  json!({
    "engine": "E1 trees restricted to SourceMapSource with inner map",
    "generated_texts": if thorough { 4 } else { 3 },
    "original_texts": ["ab\nc", "xy\nab"],
    "outer_source_tables": ["[inner]", "[inner, o1]", "[o1, inner, o2]"],
    "max_outer_segments": if thorough { 3 } else { 2 },
    "max_inner_segments": if thorough { 3 } else { 2 },
    "outer_segment_kinds": "unmapped; into the inner source at every character position of the original text (with / without outer name); into another source (with / without name)",
    "inner_segment_kinds": "unmapped; x0:1:0; x0:1:1 named; x1:2:0; x0:2:0; inner sourcesContent present / absent",
    "options": "original_source given | taken from outer sourcesContent; remove_original_source in {T,F}; columns in {T,F}",
    "subset_family": "original text 2 lines x 6 chars; inner map = EVERY subset (4096) of the 12 character positions, each segment with a distinct original location; outer map = every ordered pair (144) of positions pointed at by two consecutive generated characters",
    "dense_family": "original text of 2 lines x 4 chars with 4 inner maps that put a distinct segment on (nearly) every character; all outer lists of <= 3 segments over 4 generated positions pointing at every inner character",
  })
}

#[allow(dead_code)]
fn _seg(_: &Seg) {}

/// A representative SourceMapSource with inner map (used by other pools).
pub fn example_combined() -> Term {
  let om = {
    let mut m = MapSpec::new(
      vec![
        Seg { gl: 1, gc: 0, orig: Some((0, 1, 1, Some(0))) },
        Seg { gl: 1, gc: 2, orig: Some((1, 1, 0, None)) },
        Seg { gl: 2, gc: 0, orig: Some((0, 2, 0, None)) },
      ],
      &[INNER_NAME, "o1"],
      None,
      &["ab", "zz"],
    );
    m.contents = Some(vec![String::new(), "content of o1\nl2".into()]);
    m
  };
  let im = MapSpec::new(
    vec![Seg { gl: 1, gc: 0, orig: Some((0, 1, 0, Some(0))) }, Seg { gl: 2, gc: 0, orig: Some((1, 2, 0, None)) }],
    &["x0", "x1"],
    Some(&["ab\ncd", "xy\nab"]),
    &["in0"],
  );
  Term::Sms(Box::new(SmsSpec {
    value: "abc\nd".into(),
    name: INNER_NAME.into(),
    map: om,
    original_source: Some("ab\nc".into()),
    inner: Some(im),
    remove: false,
  }))
}
