//! E6: SourceMap JSON (C15) and parser robustness (C17, parser part).

use rspack_sources::SourceMap;
use serde_json::{json, Value};

use crate::{engine::Ctx, observe::guarded, trees::Striper};

pub const STRINGS: [&str; 12] = ["", "a", "\"", "\\", "\u{0}", "\u{1f}", "\u{7f}", "\u{2028}", "\u{2029}", "é", "😀", "\n\t"];

#[derive(Clone, Debug, PartialEq, Eq)]
pub struct MapVal {
  pub file: Option<String>,
  pub root: Option<String>,
  pub debug_id: Option<String>,
  pub sources: Vec<String>,
  pub contents: Vec<String>,
  pub names: Vec<String>,
  pub mappings: String,
}

impl MapVal {
  pub fn build(&self) -> SourceMap {
    let mut m = SourceMap::new(self.mappings.clone(), self.sources.clone(), self.contents.clone(), self.names.clone());
    m.set_file(self.file.clone());
    m.set_source_root(self.root.clone());
    m.set_debug_id(self.debug_id.clone());
    m
  }
  /// The same value reached through the setters, starting from a map that holds other tables.
  pub fn build_via_setters(&self, base_has_tables: bool) -> (SourceMap, SourceMap) {
    let mut m = if base_has_tables {
      let mut b = SourceMap::new(self.mappings.clone(), vec!["old.js".to_string(), "old2.js".into()], vec!["old content".to_string(), "x".into()], vec!["oldname".to_string()]);
      b.set_file(Some("old-file"));
      b.set_source_root(Some("old-root"));
      b.set_debug_id(Some("old-id"));
      b
    } else {
      SourceMap::new(self.mappings.clone(), Vec::<String>::new(), Vec::<String>::new(), Vec::<String>::new())
    };
    let before = m.clone();
    m.set_sources(self.sources.clone());
    m.set_sources_content(self.contents.clone());
    m.set_names(self.names.clone());
    m.set_file(self.file.clone());
    m.set_source_root(self.root.clone());
    m.set_debug_id(self.debug_id.clone());
    (m, before)
  }
  pub fn of(m: &SourceMap) -> MapVal {
    MapVal {
      file: m.file().map(|s| s.to_string()),
      root: m.source_root().map(|s| s.to_string()),
      debug_id: m.get_debug_id().map(|s| s.to_string()),
      sources: m.sources().to_vec(),
      contents: m.sources_content().to_vec(),
      names: m.names().to_vec(),
      mappings: m.mappings().to_string(),
    }
  }
  fn to_json(&self) -> Value {
    json!({"file": self.file, "sourceRoot": self.root, "debugId": self.debug_id, "sources": self.sources, "sourcesContent": self.contents, "names": self.names, "mappings": self.mappings})
  }
}

/// What a round trip must give back: sourcesContent is omitted (hence empty) exactly when all entries are empty.
fn expected_after_roundtrip(v: &MapVal) -> MapVal {
  let mut e = v.clone();
  if e.contents.iter().all(|c| c.is_empty()) {
    e.contents = vec![];
  }
  e
}

pub fn c15_value(ctx: &mut Ctx, v: &MapVal) {
  ctx.evaluations += 1;
  ctx.transitions += 6;
  let case = || v.to_json();
  let size = 1;
  let fail = |ctx: &mut Ctx, clause: &str, detail: String| ctx.violation(clause, String::new(), None, case, size, detail);
  let m = v.build();
  let json_text = match guarded(|| m.clone().to_json()) {
    Ok(Ok(s)) => s,
    Ok(Err(e)) => return fail(ctx, "to_json_error", format!("{e}")),
    Err(e) => return fail(ctx, "to_json_panic", e),
  };
  match guarded(|| {
    let mut w = Vec::new();
    m.clone().to_writer(&mut w).map(|_| w)
  }) {
    Ok(Ok(w)) => {
      if w != json_text.as_bytes() {
        fail(ctx, "to_writer_differs", format!("to_writer wrote {:?}, to_json {:?}", String::from_utf8_lossy(&w), json_text));
      }
    }
    Ok(Err(e)) => fail(ctx, "to_writer_error", format!("{e}")),
    Err(e) => fail(ctx, "to_writer_panic", e),
  }
  // "every SourceMap value": the same value reached through the setters from a map holding other
  // tables (and from an empty one) answers and serialises identically; a clone taken before keeps its own
  for base_has_tables in [true, false] {
    ctx.transitions += 7;
    match guarded(|| {
      let (m2, before) = v.build_via_setters(base_has_tables);
      let before_val = MapVal::of(&before);
      (MapVal::of(&m2), m2 == m, m2.clone().to_json().map_err(|e| e.to_string()), before_val)
    }) {
      Err(p) => fail(ctx, "setter_panic", p),
      Ok((got, eq, js, before_val)) => {
        if got != *v || !eq {
          fail(ctx, "value_built_with_setters_differs", format!("base_has_tables={base_has_tables}: accessors give {got:?} (== value built by new: {eq}), set was {v:?}"));
        }
        if js.as_deref() != Ok(json_text.as_str()) {
          fail(ctx, "value_built_with_setters_serialises_differently", format!("base_has_tables={base_has_tables}: {js:?} vs {json_text:?}"));
        }
        if base_has_tables && (before_val.sources != ["old.js", "old2.js"] || before_val.contents != ["old content", "x"] || before_val.names != ["oldname"] || before_val.file.as_deref() != Some("old-file")) {
          fail(ctx, "setter_changed_a_clone", format!("{before_val:?}"));
        }
      }
    }
  }
  // the same document through writers that accept only a few bytes per call (allowed by the Write
  // contract) and through one that is full after half of it
  {
    struct Short {
      per: usize,
      cap: usize,
      got: Vec<u8>,
    }
    impl std::io::Write for Short {
      fn write(&mut self, buf: &[u8]) -> std::io::Result<usize> {
        if self.got.len() >= self.cap {
          return Ok(0); // full: write_all turns this into WriteZero
        }
        let n = buf.len().min(self.per).min(self.cap - self.got.len());
        self.got.extend_from_slice(&buf[..n]);
        Ok(n)
      }
      fn flush(&mut self) -> std::io::Result<()> {
        Ok(())
      }
    }
    for per in [1usize, 5] {
      let mut w = Short { per, cap: usize::MAX, got: Vec::new() };
      match guarded(|| m.clone().to_writer(&mut w)) {
        Ok(Ok(())) => {
          if w.got != json_text.as_bytes() {
            fail(ctx, "to_writer_short_writes", format!("a writer taking {per} byte(s) per call received {} of {} bytes and to_writer returned Ok", w.got.len(), json_text.len()));
          }
        }
        Ok(Err(e)) => fail(ctx, "to_writer_short_writes_error", format!("{e}")),
        Err(e) => fail(ctx, "to_writer_panic", e),
      }
    }
    let mut w = Short { per: usize::MAX, cap: json_text.len() / 2, got: Vec::new() };
    match guarded(|| m.clone().to_writer(&mut w)) {
      Ok(Ok(())) => fail(ctx, "to_writer_swallows_a_full_writer", format!("the writer took {} of {} bytes, to_writer returned Ok", w.got.len(), json_text.len())),
      Ok(Err(_)) => {
        if !json_text.as_bytes().starts_with(&w.got) {
          fail(ctx, "to_writer_not_a_prefix", format!("{:?}", String::from_utf8_lossy(&w.got)));
        }
      }
      Err(e) => fail(ctx, "to_writer_panic", e),
    }
    ctx.transitions += 3;
  }
  // an independent parser accepts it as a version-3 map with the same fields
  match serde_json::from_str::<Value>(&json_text) {
    Err(e) => fail(ctx, "invalid_json", format!("{json_text:?}: {e}")),
    Ok(doc) => {
      let exp = expected_after_roundtrip(v);
      let get_s = |k: &str| doc.get(k).and_then(|x| x.as_str()).map(|s| s.to_string());
      let get_a = |k: &str| -> Option<Vec<String>> { doc.get(k).and_then(|x| x.as_array()).map(|a| a.iter().map(|e| e.as_str().unwrap_or("<non-string>").to_string()).collect()) };
      if doc.get("version") != Some(&json!(3)) {
        fail(ctx, "json_version", format!("{json_text:?}"));
      }
      if get_s("file") != v.file || get_s("sourceRoot") != v.root || get_s("debugId") != v.debug_id || get_s("mappings").as_deref() != Some(v.mappings.as_str()) {
        fail(ctx, "json_scalar_field", format!("{json_text:?} vs {v:?}"));
      }
      if get_a("sources").unwrap_or_default() != v.sources || get_a("names").unwrap_or_default() != v.names {
        fail(ctx, "json_array_field", format!("{json_text:?} vs {v:?}"));
      }
      // `sources` is a required member of a version-3 map: it is written even when it is empty
      if get_a("sources").is_none() {
        fail(ctx, "json_sources_member_missing", format!("{json_text:?}"));
      }
      match (get_a("sourcesContent"), exp.contents.is_empty()) {
        (None, true) => {}
        (Some(c), false) if c == v.contents => {}
        (x, _) => fail(ctx, "json_sources_content", format!("document has {x:?}, value has {:?}", v.contents)),
      }
      if let Some(obj) = doc.as_object() {
        for k in obj.keys() {
          if !["version", "file", "sources", "sourcesContent", "names", "mappings", "sourceRoot", "debugId"].contains(&k.as_str()) {
            fail(ctx, "json_unknown_key", k.clone());
          }
        }
      }
    }
  }
  // (a reader that was handed garbage before must still read a good document: state kept between
  // calls - buffers, arenas - is reset on the error path too)
  for bad in ["{", "{\"version\":3}", "[1,2", "{\"mappings\":null,\"sources\":[\"a\"]}"] {
    if let Err(p) = guarded(|| SourceMap::from_json(bad).is_ok()) {
      fail(ctx, "reader_panic", format!("from_json({bad:?}): {p}"));
    }
    let _ = guarded(|| SourceMap::from_slice(bad.as_bytes()).is_ok());
    let _ = guarded(|| SourceMap::from_reader(bad.as_bytes()).is_ok());
  }
  // the three readers agree and give every field back
  let exp = expected_after_roundtrip(v);
  let readers: [(&str, Result<Result<SourceMap, String>, String>); 3] = [
    ("from_json", guarded(|| SourceMap::from_json(&json_text).map_err(|e| e.to_string()))),
    ("from_slice", guarded(|| SourceMap::from_slice(json_text.as_bytes()).map_err(|e| e.to_string()))),
    ("from_reader", guarded(|| SourceMap::from_reader(json_text.as_bytes()).map_err(|e| e.to_string()))),
  ];
  // environment answers of a reader: a read may return fewer bytes than asked for (pipes, sockets);
  // every read boundary then falls somewhere else in the document, also inside multi-byte characters
  struct ShortReader<'a> {
    data: &'a [u8],
    per: usize,
  }
  impl std::io::Read for ShortReader<'_> {
    fn read(&mut self, buf: &mut [u8]) -> std::io::Result<usize> {
      let n = buf.len().min(self.per).min(self.data.len());
      buf[..n].copy_from_slice(&self.data[..n]);
      self.data = &self.data[n..];
      Ok(n)
    }
  }
  let mut readers: Vec<(&str, Result<Result<SourceMap, String>, String>)> = readers.into_iter().collect();
  for (name, per) in [("from_reader(1 byte per read)", 1usize), ("from_reader(3 bytes per read)", 3), ("from_reader(7 bytes per read)", 7)] {
    readers.push((name, guarded(|| SourceMap::from_reader(ShortReader { data: json_text.as_bytes(), per }).map_err(|e| e.to_string()))));
    ctx.transitions += 1;
  }
  for (name, r) in readers {
    match r {
      Err(p) => fail(ctx, "reader_panic", format!("{name}: {p}")),
      Ok(Err(e)) => fail(ctx, "reader_rejects_own_output", format!("{name}({json_text:?}): {e}")),
      Ok(Ok(back)) => {
        let got = MapVal::of(&back);
        if got != exp {
          fail(ctx, "roundtrip", format!("{name}: {got:?}, expected {exp:?}"));
        }
      }
    }
  }
  if v.sources.len() + v.names.len() >= 2 {
    ctx.nontrivial += 1;
  }
  ctx.outcome(&json_text);
  ctx.traces_validated += 1;
}

fn base_val() -> MapVal {
  MapVal { file: None, root: None, debug_id: None, sources: vec!["s.js".into()], contents: vec![], names: vec!["n".into()], mappings: "AAAA".into() }
}

/// field setters: index -> (name, setter)
fn set_field(v: &mut MapVal, field: usize, s: &str) {
  match field {
    0 => v.file = Some(s.to_string()),
    1 => v.root = Some(s.to_string()),
    2 => v.debug_id = Some(s.to_string()),
    3 => v.sources = vec![s.to_string(), "z".into()],
    4 => v.contents = vec![s.to_string(), "c".into()],
    5 => v.names = vec!["k".into(), s.to_string()],
    _ => v.mappings = s.to_string(),
  }
}

pub fn c15_worker(tier: &str, k: usize, n: usize, ctx: &mut Ctx) {
  let thorough = tier == "thorough";
  let mut st = Striper::new(k, n);
  crate::set_current_desc("\"c15 values\"".into());
  // values: every ordered pair of fields x every pair of strings x presence lattice x contents mode
  for f1 in 0..7 {
    for f2 in 0..7 {
      if f1 == f2 {
        continue;
      }
      for s1 in STRINGS {
        for s2 in STRINGS {
          if !st.mine() {
            continue;
          }
          for presence in 0..8u8 {
            for cmode in 0..3u8 {
              let mut v = base_val();
              if presence & 1 != 0 {
                v.file = Some("f".into());
              }
              if presence & 2 != 0 {
                v.root = Some("r/".into());
              }
              if presence & 4 != 0 {
                v.debug_id = Some("id-1".into());
              }
              v.contents = match cmode {
                0 => vec![],
                1 => vec!["".into(), "".into()],
                _ => vec!["".into(), "x".into()],
              };
              set_field(&mut v, f1, s1);
              set_field(&mut v, f2, s2);
              ctx.states += 1;
              ctx.sample(40_000, 3, || v.to_json());
              c15_value(ctx, &v);
            }
          }
        }
      }
    }
  }
  // three fields at once over a reduced string set (thorough)
  if thorough {
    let reduced = ["\"", "\\", "\u{0}", "\u{2028}", "😀", ""];
    for f1 in 0..7 {
      for f2 in (f1 + 1)..7 {
        for f3 in (f2 + 1)..7 {
          for s1 in reduced {
            for s2 in reduced {
              for s3 in reduced {
                if !st.mine() {
                  continue;
                }
                let mut v = base_val();
                set_field(&mut v, f1, s1);
                set_field(&mut v, f2, s2);
                set_field(&mut v, f3, s3);
                ctx.states += 1;
                c15_value(ctx, &v);
              }
            }
          }
        }
      }
    }
  }
  // tables that are empty or hold only empty strings (what null entries read as)
  for sources in [vec![], vec![""], vec!["", ""], vec!["", "x"], vec!["x", ""]] {
    for contents in [vec![], vec![""], vec!["c"], vec!["", "c"], vec!["", ""]] {
      for names in [vec![], vec![""], vec!["n"], vec!["", "n"]] {
        if !st.mine() {
          continue;
        }
        let mut v = base_val();
        v.sources = sources.iter().map(|x| x.to_string()).collect();
        v.contents = contents.iter().map(|x| x.to_string()).collect();
        v.names = names.iter().map(|x| x.to_string()).collect();
        ctx.states += 1;
        ctx.count("empty_table_values");
        c15_value(ctx, &v);
      }
    }
  }
  // long documents: a multi-byte character placed across every offset that is a multiple of a
  // buffer size a reader may use (512 .. 64 KiB), at each of its interior byte positions
  {
    for c in ["é", "€", "\u{2028}", "😀"] {
      for boundary in [512usize, 1024, 4096, 8192, 16384, 32768, 65536, 2 * 65536] {
        for split in 1..c.len() {
          for field in [4usize, 5, 0] {
            if !st.mine() {
              continue;
            }
            // find the padding that puts byte `split` of the character at `boundary`
            let probe = |pad: usize| {
              let mut v = base_val();
              set_field(&mut v, field, &format!("{}{c}tail", "x".repeat(pad)));
              v
            };
            let j0 = probe(0).build().to_json().unwrap_or_default();
            let Some(at0) = j0.find(c) else { continue };
            if at0 + split > boundary {
              continue;
            }
            let v = probe(boundary - at0 - split);
            let j = v.build().to_json().unwrap_or_default();
            if j.find(c).map(|p| p + split) != Some(boundary) {
              ctx.notes.push(format!("MACHINERY: long document alignment failed for {c:?} {boundary} {split}"));
              continue;
            }
            ctx.states += 1;
            ctx.count("long_document_values");
            c15_value(ctx, &v);
          }
        }
      }
    }
  }
  // every single character (quick: U+0000..U+07FF, the general-punctuation block with U+2028/2029,
  // the borders of the surrogate gap, the last BMP code points and astral samples; thorough: the
  // whole BMP) in every string field, alone and between two ASCII letters
  {
    let mut chars: Vec<char> = Vec::new();
    if thorough {
      chars.extend((0u32..=0xffff).filter_map(char::from_u32));
    } else {
      chars.extend((0u32..0x800).filter_map(char::from_u32));
      chars.extend((0x2000u32..0x2070).filter_map(char::from_u32));
      chars.extend(['\u{d7ff}', '\u{e000}', '\u{feff}', '\u{fffd}', '\u{fffe}', '\u{ffff}']);
    }
    chars.extend(['\u{10000}', '\u{1f600}', '\u{10ffff}']);
    for c in chars {
      if !st.mine() {
        continue;
      }
      for f in 0..7 {
        for emb in [false, true] {
          let sv = if emb { format!("a{c}b") } else { c.to_string() };
          let mut v = base_val();
          set_field(&mut v, f, &sv);
          ctx.states += 1;
          ctx.count("single_character_sweep_values");
          c15_value(ctx, &v);
        }
      }
    }
  }
  // all short strings over the symbols that matter to an escaper / unescaper next to each other
  {
    let syms = ["\"", "\\", "u", "0", "/", "\n", "\u{0}", "é", "😀", "b"];
    let max = if thorough { 4 } else { 3 };
    let mut sv = String::new();
    for len in 2..=max {
      let total = syms.len().pow(len as u32);
      for idx in 0..total {
        if !st.mine() {
          continue;
        }
        sv.clear();
        let mut c = idx;
        for _ in 0..len {
          sv.push_str(syms[c % syms.len()]);
          c /= syms.len();
        }
        for f in [0usize, 3, 4, 5, 6] {
          let mut v = base_val();
          set_field(&mut v, f, &sv);
          ctx.states += 1;
          ctx.count("escape_neighbourhood_values");
          c15_value(ctx, &v);
        }
      }
    }
  }
  // documents: key order permutations, nulls, missing arrays
  let docs = documents(thorough);
  for (doc, want) in &docs {
    if !st.mine() {
      continue;
    }
    ctx.states += 1;
    c15_document(ctx, doc, want);
  }
}

/// A document is a list of (key, raw JSON value) pairs in order.
fn documents(thorough: bool) -> Vec<(String, MapVal)> {
  let mut out = Vec::new();
  // per key: (raw text, effect)
  let variants: Vec<(&str, Vec<(&str, Box<dyn Fn(&mut MapVal)>)>)> = vec![
    ("version", vec![("3", Box::new(|_| {}))]),
    (
      "file",
      vec![
        ("\"f.js\"", Box::new(|v| v.file = Some("f.js".into()))),
        ("null", Box::new(|_| {})),
        ("<absent>", Box::new(|_| {})),
        // every escape form a writer may use: \uXXXX, a surrogate pair, \/ and the short escapes
        (r#""\u0041\ud83d\ude00\/\b\f\n\r\t\"\\""#, Box::new(|v| v.file = Some("A😀/\u{8}\u{c}\n\r\t\"\\".into()))),
      ],
    ),
    (
      "sources",
      vec![
        ("[\"a\",null,\"b\"]", Box::new(|v| v.sources = vec!["a".into(), "".into(), "b".into()])),
        ("null", Box::new(|_| {})),
        ("<absent>", Box::new(|_| {})),
        ("[]", Box::new(|_| {})),
      ],
    ),
    (
      "sourcesContent",
      vec![
        ("[null,\"x\"]", Box::new(|v| v.contents = vec!["".into(), "x".into()])),
        ("[null,null]", Box::new(|v| v.contents = vec!["".into(), "".into()])),
        ("null", Box::new(|_| {})),
        ("<absent>", Box::new(|_| {})),
      ],
    ),
    (
      "names",
      vec![
        ("[null,\"n\"]", Box::new(|v| v.names = vec!["".into(), "n".into()])),
        ("<absent>", Box::new(|_| {})),
        ("null", Box::new(|_| {})),
        (r#"["\u00e9\u2028","\uD83D\uDE00"]"#, Box::new(|v| v.names = vec!["é\u{2028}".into(), "😀".into()])),
      ],
    ),
    ("mappings", vec![("\"AAAA;AACA\"", Box::new(|v| v.mappings = "AAAA;AACA".into())), ("\"\"", Box::new(|v| v.mappings = String::new()))]),
    ("sourceRoot", vec![("\"r\"", Box::new(|v| v.root = Some("r".into()))), ("null", Box::new(|_| {})), ("<absent>", Box::new(|_| {}))]),
    ("debugId", vec![("\"d\"", Box::new(|v| v.debug_id = Some("d".into()))), ("<absent>", Box::new(|_| {}))]),
  ];
  // all combinations of variants
  let mut combos: Vec<Vec<usize>> = vec![vec![]];
  for (_, vs) in &variants {
    let mut next = Vec::new();
    for c in &combos {
      for i in 0..vs.len() {
        let mut d = c.clone();
        d.push(i);
        next.push(d);
      }
    }
    combos = next;
  }
  // key orders: all rotations and the reversal (thorough: all permutations of 5 of the keys)
  let nk = variants.len();
  let mut orders: Vec<Vec<usize>> = Vec::new();
  for r in 0..nk {
    orders.push((0..nk).map(|i| (i + r) % nk).collect());
  }
  orders.push((0..nk).rev().collect());
  if thorough {
    // all permutations of the first five keys, rest in place
    let mut perm: Vec<usize> = (0..5).collect();
    permute(&mut perm, 0, &mut |p| {
      let mut o: Vec<usize> = p.to_vec();
      o.extend(5..nk);
      orders.push(o);
    });
  }
  for (ci, c) in combos.iter().enumerate() {
    for (oi, order) in orders.iter().enumerate() {
      if !thorough && (ci + oi) % 3 != 0 {
        continue; // quick: every combination appears with a third of the orders
      }
      let mut want = MapVal { file: None, root: None, debug_id: None, sources: vec![], contents: vec![], names: vec![], mappings: String::new() };
      let mut parts = Vec::new();
      for &ki in order {
        let (key, vs) = &variants[ki];
        let (raw, eff) = &vs[c[ki]];
        eff(&mut want);
        if *raw != "<absent>" {
          parts.push(format!("\"{key}\":{raw}"));
        }
      }
      out.push((format!("{{{}}}", parts.join(",")), want));
    }
  }
  out
}

fn permute(v: &mut Vec<usize>, i: usize, f: &mut dyn FnMut(&[usize])) {
  if i == v.len() {
    f(v);
    return;
  }
  for j in i..v.len() {
    v.swap(i, j);
    permute(v, i + 1, f);
    v.swap(i, j);
  }
}

fn c15_document(ctx: &mut Ctx, doc: &str, want: &MapVal) {
  ctx.evaluations += 1;
  ctx.transitions += 3;
  let case = || json!({"document": doc});
  let readers: [(&str, Result<Result<SourceMap, String>, String>); 3] = [
    ("from_json", guarded(|| SourceMap::from_json(doc).map_err(|e| e.to_string()))),
    ("from_slice", guarded(|| SourceMap::from_slice(doc.as_bytes()).map_err(|e| e.to_string()))),
    ("from_reader", guarded(|| SourceMap::from_reader(doc.as_bytes()).map_err(|e| e.to_string()))),
  ];
  for (name, r) in readers {
    match r {
      Err(p) => ctx.violation("reader_panic", name.into(), None, case, doc.len(), format!("{name}({doc}): {p}")),
      Ok(Err(e)) => ctx.violation("reader_rejects_document", name.into(), None, case, doc.len(), format!("{name}({doc}): {e}")),
      Ok(Ok(m)) => {
        let got = MapVal::of(&m);
        if &got != want {
          ctx.violation("document_fields", name.into(), None, case, doc.len(), format!("{name}({doc}) = {got:?}, expected {want:?}"));
        }
      }
    }
  }
  ctx.nontrivial += 1;
  ctx.traces_validated += 1;
}

pub fn c15_bounds(tier: &str) -> Value {
  json!({
    "engine": "E6 json",
    "strings": STRINGS,
    "values": "every ordered pair of the 7 string-carrying fields x every pair of strings x presence of file/sourceRoot/debugId (8) x sourcesContent {absent, all empty, mixed}; thorough adds every triple of fields over 6 strings",
    "documents": documents(tier == "thorough").len(),
    "document_lattice": "per key: present / null / absent / arrays with null entries; key orders: all rotations + reversal (thorough: all permutations of five keys)",
    "independent_parser": "serde_json::Value",
  })
}

// --------------------------------------------------------------------------- C17 parser part

const VALID_DOCS: [&str; 12] = [
  r#"{"version":3,"sources":["a.js"],"names":[],"mappings":"AAAA"}"#,
  r#"{"mappings":";"}"#,
  r#"{"version":3,"file":"x","sources":["a",null],"sourcesContent":[null,"c"],"names":["n"],"mappings":"AAAAA","sourceRoot":"r","debugId":"d"}"#,
  r#"{"mappings":"","sources":null}"#,
  r#" { "mappings" : "A" , "names" : [ "é😀" ] } "#,
  r#"{"mappings":"AAAA","x":{"y":[1,2.5e3,true,null]}}"#,
  r#"{"mappings":"\"\\\/\b\f\n\r\t"}"#,
  r#"{"sources":[],"mappings":"A","sourcesContent":[]}"#,
  r#"{"version":3.0,"mappings":"A"}"#,
  r#"{"mappings":"A","mappings":"B"}"#,
  r#"{"mappings":"é😀"}"#,
  r#"{"names":["a","b"],"mappings":"AAAAA,CAAAC"}"#,
];

fn parse_all(ctx: &mut Ctx, bytes: &[u8]) {
  ctx.evaluations += 1;
  ctx.states += 1;
  ctx.transitions += 3;
  let mut oks = 0;
  let mut rs: Vec<Option<bool>> = Vec::new();
  let calls: [(&str, Box<dyn Fn() -> Result<bool, String> + '_>); 3] = [
    (
      "from_slice",
      Box::new(|| {
        guarded(|| match SourceMap::from_slice(bytes) {
          Ok(m) => {
            // a map that parsed is then used: decoded, serialised again, attached to a source
            let n = m.decoded_mappings().count();
            let _ = m.clone().to_json();
            let src = rspack_sources::SourceMapSource::new(rspack_sources::WithoutOriginalOptions { value: "ab\ncd", name: "p.js", source_map: m });
            for columns in [true, false] {
              let _ = crate::observe::stream(&src, columns, false);
              let _ = rspack_sources::Source::map(&rspack_sources::ConcatSource::new([rspack_sources::SourceExt::boxed(src.clone())]), &rspack_sources::MapOptions::new(columns));
            }
            let _ = n;
            true
          }
          Err(_) => false,
        })
      }),
    ),
    ("from_reader", Box::new(|| guarded(|| SourceMap::from_reader(bytes).is_ok()))),
    (
      "from_json",
      Box::new(|| match std::str::from_utf8(bytes) {
        Ok(s) => guarded(|| SourceMap::from_json(s).is_ok()),
        Err(_) => Ok(false),
      }),
    ),
  ];
  for (name, f) in calls.iter() {
    match f() {
      Ok(ok) => {
        rs.push(Some(ok));
        if ok {
          oks += 1;
        }
      }
      Err(p) => {
        rs.push(None);
        ctx.violation(
          "parser_panic",
          format!("{name}:{}", p.rsplit('@').next().unwrap_or("").trim()),
          None,
          || json!({"bytes": bytes}),
          bytes.len(),
          format!("{name}({:?}) panicked: {p}", String::from_utf8_lossy(bytes)),
        );
      }
    }
  }
  if oks > 0 {
    ctx.nontrivial += 1;
  }
  ctx.outcome(&rs);
}

pub fn c17_parser_worker(tier: &str, k: usize, n: usize, ctx: &mut Ctx) {
  let max_len = if tier == "thorough" { 3 } else { 2 };
  crate::set_current_desc("\"c17 parsers\"".into());
  // all byte strings up to max_len
  let mut buf = Vec::new();
  for len in 0..=max_len {
    let total = 256usize.pow(len as u32);
    let mut idx = k;
    while idx < total {
      buf.clear();
      let mut c = idx;
      for _ in 0..len {
        buf.push((c % 256) as u8);
        c /= 256;
      }
      if idx % 8192 == k {
        crate::set_current_desc(json!({"bytes": buf}).to_string());
      }
      parse_all(ctx, &buf);
      idx += n;
    }
  }
  // complete single-edit neighbourhood of valid documents
  let mut st = Striper::new(k, n);
  for doc in VALID_DOCS {
    let b = doc.as_bytes();
    if st.mine() {
      parse_all(ctx, b);
    }
    for i in 0..b.len() {
      if !st.mine() {
        continue;
      }
      crate::set_current_desc(json!({"doc": doc, "edit_at": i}).to_string());
      for v in 0..=255u8 {
        if v == b[i] {
          continue;
        }
        let mut e = b.to_vec();
        e[i] = v;
        parse_all(ctx, &e);
      }
      let mut e = b.to_vec();
      e.remove(i);
      parse_all(ctx, &e);
      parse_all(ctx, &b[..i]);
      if i + 1 < b.len() {
        let mut e = b.to_vec();
        e.swap(i, i + 1);
        parse_all(ctx, &e);
      }
      // insertion of structural bytes
      for v in [b'"', b'\\', b'{', b'[', b',', 0u8, 0xffu8] {
        let mut e = b.to_vec();
        e.insert(i, v);
        parse_all(ctx, &e);
      }
    }
  }
  // deep nesting and long inputs (stack / length handling)
  if k == 0 {
    for depth in [10usize, 100, 1000, 5000] {
      let s = format!("{{\"mappings\":\"A\",\"x\":{}{}}}", "[".repeat(depth), "]".repeat(depth));
      crate::set_current_desc(json!({"nesting": depth}).to_string());
      parse_all(ctx, s.as_bytes());
      let s = format!("{{\"mappings\":\"{}\"}}", "A".repeat(depth * 10));
      parse_all(ctx, s.as_bytes());
    }
  }
}
