//! C06: composites preserve what their children attribute.

use serde_json::json;

use crate::{
  engine::Ctx,
  model,
  observe::{Attr, ChunkView},
  term::{Repl, Term},
  tree_checks::{case_json, report_panic, stream_attrs, Obs},
};

fn norm(a: &Option<Attr>) -> Option<Attr> {
  a.clone().map(|mut a| {
    if a.content.as_deref() == Some("") {
      a.content = None;
    }
    a
  })
}

/// Per character of the child's text: its own attribution (outside stream, columns=true).
fn own_attrs(obs: &Obs) -> Result<(Vec<ChunkView>, Vec<usize>), String> {
  let s = obs.stream(true, false)?;
  Ok(stream_attrs(&s))
}

pub fn c06_concat(ctx: &mut Ctx, t: &Term) {
  let Term::Concat { children, .. } = t else { return };
  ctx.evaluations += 1;
  let obs = match Obs::new(t) {
    Ok(o) => o,
    Err(e) => return report_panic(ctx, t, "build", &e),
  };
  // expected: concatenation of what each child says on its own (fresh child objects)
  let mut expected: Vec<Option<Attr>> = Vec::new();
  let mut expected_lines: Vec<(u32, Option<(String, u32)>)> = Vec::new(); // (output line, first mapped piece) in order
  let mut line_off = 0u32;
  for c in children {
    let co = match Obs::new(c) {
      Ok(o) => o,
      Err(e) => return report_panic(ctx, c, "build child", &e),
    };
    match own_attrs(&co) {
      Ok((views, cc)) => expected.extend(cc.iter().map(|&i| norm(&views[i].attr))),
      Err(e) => return report_panic(ctx, c, "child stream(true)", &e),
    }
    match co.stream(false, false) {
      Ok(s) => {
        for v in s.views() {
          if v.text.is_empty() {
            continue;
          }
          expected_lines.push((v.gl + line_off, v.attr.as_ref().map(|a| (a.file.clone(), a.line))));
        }
      }
      Err(e) => return report_panic(ctx, c, "child stream(false)", &e),
    }
    line_off += model::model_text(c).matches('\n').count() as u32;
  }
  let text = model::model_text(t);
  let (pos, _) = model::positions(&text);
  if expected.len() != pos.len() {
    ctx.count("skipped_length_mismatch");
    return;
  }
  let mapped = expected.iter().filter(|a| a.is_some()).count();
  if mapped > 0 && children.len() >= 2 {
    ctx.nontrivial += 1;
  }
  ctx.outcome(&(&expected, children.len()));
  // by the composite's stream
  match own_attrs(&obs) {
    Err(e) => report_panic(ctx, t, "stream(true)", &e),
    Ok((views, cc)) => {
      ctx.transitions += 1;
      if cc.len() == expected.len() {
        for i in 0..cc.len() {
          let got = norm(&views[cc[i]].attr);
          if got != expected[i] {
            ctx.violation(
              "concat_stream_attribution",
              format!("exp_mapped={} got_mapped={}", expected[i].is_some(), got.is_some()),
              None,
              || case_json(t),
              t.size(),
              format!("position {i} of {text:?}: child says {:?}, ConcatSource stream says {:?}", expected[i], got),
            );
            break;
          }
        }
      }
    }
  }
  // by the composite's map; a second time when a child answers from a cache the first call filled
  let rounds = if crate::tree_checks::has_cached(t) { 2 } else { 1 };
  for round in 0..rounds {
    match obs.map(true) {
      Err(e) => report_panic(ctx, t, "map(true)", &e),
      Ok(m) => {
        ctx.transitions += 1;
        for (i, &(l, c)) in pos.iter().enumerate() {
          let got = norm(&m.as_ref().and_then(|m| m.resolve(l, c)));
          if got != expected[i] {
            ctx.violation(
              if round == 0 { "concat_map_attribution" } else { "concat_map_attribution_repeated_call" },
              format!("exp_mapped={} got_mapped={}", expected[i].is_some(), got.is_some()),
              None,
              || case_json(t),
              t.size(),
              format!("position {l}:{c} of {text:?} (call {}): child says {:?}, ConcatSource map says {:?}", round + 1, expected[i], got),
            );
            break;
          }
        }
      }
    }
  }
  // columns=false: each output line carries (file, line) of the first mapped child piece on it
  let nlines = pos.last().map(|p| p.0).unwrap_or(0);
  let want_line = |l: u32| expected_lines.iter().find(|(gl, a)| *gl == l && a.is_some()).and_then(|(_, a)| a.clone());
  match obs.map(false) {
    Err(e) => report_panic(ctx, t, "map(false)", &e),
    Ok(m) => {
      ctx.transitions += 1;
      for l in 1..=nlines {
        let got = m.as_ref().and_then(|m| m.resolve_line(l)).map(|a| (a.file, a.line));
        if got != want_line(l) {
          ctx.violation(
            "concat_map_lines",
            String::new(),
            None,
            || case_json(t),
            t.size(),
            format!("line {l} of {text:?}: first mapped child piece {:?}, ConcatSource map(false) says {:?}", want_line(l), got),
          );
          break;
        }
      }
    }
  }
  match obs.stream(false, false) {
    Err(e) => report_panic(ctx, t, "stream(false)", &e),
    Ok(s) => {
      ctx.transitions += 1;
      let views = s.views();
      for l in 1..=nlines {
        let got = views
          .iter()
          .find(|v| v.gl == l && !v.text.is_empty() && v.attr.is_some())
          .and_then(|v| v.attr.as_ref())
          .map(|a| (a.file.clone(), a.line));
        if got != want_line(l) {
          ctx.violation(
            "concat_stream_lines",
            String::new(),
            None,
            || case_json(t),
            t.size(),
            format!("line {l} of {text:?}: first mapped child piece {:?}, ConcatSource stream(false) says {:?}", want_line(l), got),
          );
          break;
        }
      }
    }
  }
  ctx.traces_validated += 1;
}

/// One output item of the splice model.
#[derive(Clone, Debug)]
enum Item {
  Inner(usize),
  /// replacement index, splice point, char offset inside the content, on first line of the content
  Repl(usize, usize, bool),
}

struct InnerSeg {
  start: usize,
  len: usize,
  attr: Option<Attr>,
}

pub fn c06_replace(ctx: &mut Ctx, t: &Term) {
  let Term::Replace(inner, repls) = t else { return };
  if repls.is_empty() {
    return;
  }
  ctx.evaluations += 1;
  let io = match Obs::new(inner) {
    Ok(o) => o,
    Err(e) => return report_panic(ctx, inner, "build inner", &e),
  };
  let inner_text = model::model_text(inner);
  if !inner_text.is_ascii() {
    return;
  }
  // inner segments = the inner source's own chunk stream
  let (iviews, _icc) = match own_attrs(&io) {
    Ok(x) => x,
    Err(e) => return report_panic(ctx, inner, "inner stream(true)", &e),
  };
  let mut segs: Vec<InnerSeg> = Vec::new();
  let mut off = 0usize;
  for v in &iviews {
    if v.text.is_empty() {
      continue;
    }
    segs.push(InnerSeg { start: off, len: v.text.len(), attr: norm(&v.attr) });
    off += v.text.len();
  }
  if off != inner_text.len() {
    ctx.count("skipped_inner_reassembly_mismatch");
    return;
  }
  let seg_of = |i: usize| segs.iter().position(|s| i >= s.start && i < s.start + s.len);
  // output items by the splice model + cut points
  let items = std::cell::RefCell::new(Vec::<Item>::new());
  let cuts = std::cell::RefCell::new(std::collections::BTreeSet::<usize>::new());
  model::splice(
    inner_text.len(),
    repls,
    |a, b| {
      for i in a..b {
        items.borrow_mut().push(Item::Inner(i));
      }
    },
    |r, p| {
      cuts.borrow_mut().insert(p);
      let mut first_line = true;
      for ch in repls[r].content.chars() {
        items.borrow_mut().push(Item::Repl(r, p, first_line));
        if ch == '\n' {
          first_line = false;
        }
      }
    },
  );
  let items = items.into_inner();
  let cuts = cuts.into_inner();
  let out_text = model::model_text(t);
  let (pos, _) = model::positions(&out_text);
  if items.len() != pos.len() {
    ctx.count("skipped_model_mismatch");
    return;
  }
  // piece start (offset inside its segment) for every surviving inner index
  let mut piece_start: Vec<Option<usize>> = vec![None; inner_text.len()];
  {
    let mut prev: Option<usize> = None;
    let mut cur_start = 0usize;
    for it in &items {
      match it {
        Item::Inner(i) => {
          let s = seg_of(*i).unwrap();
          let contiguous = prev == Some(i.wrapping_sub(1)) && seg_of(i.wrapping_sub(1)) == Some(s) && !cuts.contains(i);
          if !contiguous {
            cur_start = *i - segs[s].start;
          }
          piece_start[*i] = Some(cur_start);
          prev = Some(*i);
        }
        Item::Repl(..) => prev = None,
      }
    }
  }
  // does the recorded content at (line, col0) start with segment[0..k]?
  let prefix_matches = |a: &Attr, seg: &InnerSeg, k: usize| -> Option<bool> {
    let content = a.content.as_ref()?;
    let line = (a.line as usize).checked_sub(1).and_then(|l| content.split_inclusive('\n').nth(l));
    let want = &inner_text[seg.start..seg.start + k];
    Some(match line {
      None => false,
      Some(l) => l.chars().skip(a.col as usize).collect::<String>().starts_with(want),
    })
  };

  let obs = match Obs::new(t) {
    Ok(o) => o,
    Err(e) => return report_panic(ctx, t, "build", &e),
  };
  let by_stream: Vec<Option<Attr>> = match own_attrs(&obs) {
    Ok((views, cc)) => cc.iter().map(|&i| norm(&views[i].attr)).collect(),
    Err(e) => return report_panic(ctx, t, "stream(true)", &e),
  };
  let by_map: Vec<Option<Attr>> = match obs.map(true) {
    Ok(m) => pos.iter().map(|&(l, c)| norm(&m.as_ref().and_then(|m| m.resolve(l, c)))).collect(),
    Err(e) => return report_panic(ctx, t, "map(true)", &e),
  };
  ctx.transitions += 2;
  if by_stream.len() != items.len() {
    ctx.count("skipped_reassembly_mismatch");
    return;
  }
  let mapped_survivors = items.iter().filter(|it| matches!(it, Item::Inner(i) if segs[seg_of(*i).unwrap()].attr.is_some())).count();
  if mapped_survivors > 0 && segs.len() >= 2 {
    ctx.nontrivial += 1;
  }
  ctx.outcome(&(&by_stream, segs.len()));

  for (view, got_all) in [("stream", &by_stream), ("map", &by_map)] {
    let mut last_col_of_seg: Vec<Option<u32>> = vec![None; segs.len()];
    for (oi, it) in items.iter().enumerate() {
      let got = &got_all[oi];
      let fail = |ctx: &mut Ctx, clause: &str, why: String| {
        ctx.violation(
          clause,
          format!("{view}"),
          None,
          || case_json(t),
          t.size(),
          format!("{view}: output position {oi} ({:?}) of {out_text:?}: {why}; got {:?}", pos[oi], got),
        );
      };
      match it {
        Item::Inner(i) => {
          let si = seg_of(*i).unwrap();
          let seg = &segs[si];
          match (&seg.attr, got) {
            (None, None) => {}
            (None, Some(_)) => {
              ctx.count("unmapped_inner_char_mapped_in_composite");
              // generated inner text spliced next to replacement content: the replacement is
              // attributed to the active location, the surviving generated text must stay unmapped
              fail(ctx, "replace_unmapped_survivor_mapped", "inner segment is unmapped".into());
              return;
            }
            (Some(a), None) => {
              fail(ctx, "replace_survivor_lost_mapping", format!("inner segment says {:?}", a));
              return;
            }
            (Some(a), Some(g)) => {
              let kp = piece_start[*i].unwrap();
              if g.file != a.file || g.content != a.content || g.line != a.line || g.name != a.name {
                fail(ctx, "replace_survivor_file_line_name", format!("inner segment says {:?}", a));
                return;
              }
              let lo = a.col;
              let hi = a.col + kp as u32;
              if g.col < lo || g.col > hi {
                fail(ctx, "replace_survivor_column_interval", format!("inner segment col {} offset {kp}", a.col));
                return;
              }
              match prefix_matches(a, seg, kp) {
                None => {
                  if g.col != a.col {
                    fail(ctx, "replace_column_advanced_without_content", format!("no recorded content for {}", a.file));
                    return;
                  }
                }
                Some(true) => {
                  if g.col != hi {
                    fail(ctx, "replace_column_not_advanced", format!("content matches the {kp} preceding chars; expected column {hi}"));
                    return;
                  }
                }
                Some(false) => {}
              }
              if let Some(prev) = last_col_of_seg[si] {
                if g.col < prev {
                  fail(ctx, "replace_column_decreases", format!("earlier piece of the segment had column {prev}"));
                  return;
                }
              }
              last_col_of_seg[si] = Some(g.col);
            }
          }
        }
        Item::Repl(r, p, first_line) => {
          if *p >= inner_text.len() {
            continue; // at or after the end of the inner text: don't-care here
          }
          let si = seg_of(*p).unwrap();
          let seg = &segs[si];
          match (&seg.attr, got) {
            (None, None) => {}
            (None, Some(_)) => {
              fail(ctx, "replacement_mapped_in_unmapped_segment", format!("replacement {r} spliced at {p} into an unmapped segment"));
              return;
            }
            (Some(a), None) => {
              fail(ctx, "replacement_lost_location", format!("replacement {r} spliced at {p} into segment {:?}", a));
              return;
            }
            (Some(a), Some(g)) => {
              let k = *p - seg.start;
              if g.file != a.file || g.content != a.content || g.line != a.line {
                fail(ctx, "replacement_file_line", format!("replacement {r} spliced at {p} into segment {:?}", a));
                return;
              }
              let hi = a.col + k as u32;
              if g.col < a.col || g.col > hi {
                fail(ctx, "replacement_column_interval", format!("segment col {} splice offset {k}", a.col));
                return;
              }
              match prefix_matches(a, seg, k) {
                None if g.col != a.col => {
                  fail(ctx, "replacement_column_advanced_without_content", format!("no recorded content for {}", a.file));
                  return;
                }
                Some(true) if g.col != hi => {
                  fail(ctx, "replacement_column_not_advanced", format!("content matches; expected column {hi}"));
                  return;
                }
                _ => {}
              }
              if *first_line {
                let want = repls[*r].name.clone().or_else(|| a.name.clone());
                if g.name != want {
                  fail(ctx, "replacement_name", format!("replacement {r} name {:?}, segment name {:?}: expected {:?}", repls[*r].name, a.name, want));
                  return;
                }
              }
            }
          }
        }
      }
    }
  }
  // columns=false: every output line carries (file, line) of the first mapped piece on it
  let segs_f: Vec<InnerSeg> = match io.stream(false, false) {
    Err(e) => return report_panic(ctx, inner, "inner stream(false)", &e),
    Ok(s) => {
      let mut v = Vec::new();
      let mut off = 0usize;
      for view in s.views() {
        if view.text.is_empty() {
          continue;
        }
        v.push(InnerSeg { start: off, len: view.text.len(), attr: norm(&view.attr) });
        off += view.text.len();
      }
      if off != inner_text.len() {
        return;
      }
      v
    }
  };
  let seg_f_of = |i: usize| segs_f.iter().find(|s| i >= s.start && i < s.start + s.len);
  // expected per output char: Some(Some(file,line)) mapped, Some(None) unmapped, None don't-care
  let exp_f: Vec<Option<Option<(String, u32)>>> = items
    .iter()
    .map(|it| match it {
      Item::Inner(i) => Some(seg_f_of(*i).and_then(|s| s.attr.as_ref()).map(|a| (a.file.clone(), a.line))),
      Item::Repl(_, p, _) if *p >= inner_text.len() => None,
      Item::Repl(_, p, _) => Some(seg_f_of(*p).and_then(|s| s.attr.as_ref()).map(|a| (a.file.clone(), a.line))),
    })
    .collect();
  let nlines = pos.last().map(|p| p.0).unwrap_or(0);
  let want_line = |l: u32| -> Option<Option<(String, u32)>> {
    // None = undetermined (a don't-care piece comes first or no mapped piece at all next to one)
    for (oi, e) in exp_f.iter().enumerate() {
      if pos[oi].0 != l {
        continue;
      }
      match e {
        None => return None,
        Some(Some(a)) => return Some(Some(a.clone())),
        Some(None) => {}
      }
    }
    Some(None)
  };
  let got_map = match obs.map(false) {
    Ok(m) => m,
    Err(e) => return report_panic(ctx, t, "map(false)", &e),
  };
  let got_stream = match obs.stream(false, false) {
    Ok(s) => s.views(),
    Err(e) => return report_panic(ctx, t, "stream(false)", &e),
  };
  ctx.transitions += 2;
  for l in 1..=nlines {
    let Some(want) = want_line(l) else { continue };
    let by_map = got_map.as_ref().and_then(|m| m.resolve_line(l)).map(|a| (a.file, a.line));
    let by_stream = got_stream.iter().find(|v| v.gl == l && !v.text.is_empty() && v.attr.is_some()).and_then(|v| v.attr.as_ref()).map(|a| (a.file.clone(), a.line));
    if by_map != want {
      ctx.violation("replace_map_lines", String::new(), None, || case_json(t), t.size(), format!("line {l} of {out_text:?}: first mapped piece {want:?}, ReplaceSource map(false) says {by_map:?}"));
      break;
    }
    if by_stream != want {
      ctx.violation("replace_stream_lines", String::new(), None, || case_json(t), t.size(), format!("line {l} of {out_text:?}: first mapped piece {want:?}, ReplaceSource stream(false) says {by_stream:?}"));
      break;
    }
  }
  ctx.traces_validated += 1;
}

pub fn c06(ctx: &mut Ctx, t: &Term) {
  match t {
    Term::Concat { .. } => c06_concat(ctx, t),
    Term::Replace(..) => c06_replace(ctx, t),
    _ => {}
  }
}

#[allow(dead_code)]
pub fn sample(t: &Term) -> serde_json::Value {
  json!({"term": case_json(t)})
}

#[allow(dead_code)]
fn _unused(_: &Repl) {}
