//! C08: a SourceMapSource reproduces the attribution of the map it was given.

use serde_json::{json, Value};

use crate::{
  engine::Ctx,
  model,
  observe::{Attr, Ev, Stream},
  refcodec::{self, Seg},
  term::{apply_root, DefaultSpec, MapSpec, SmsSpec, Term, O4},
  tree_checks::{case_json, report_panic, Obs},
  trees::{self, Striper},
};

/// (the last two differ only in carrying a name)
const KINDS: [Option<O4>; 6] =
  [None, Some((0, 1, 0, None)), Some((1, 2, 1, None)), Some((1, 1, 0, Some(1))), Some((0, 1, 1, Some(0))), Some((0, 1, 1, None))];
const ROOTS: [Option<&str>; 4] = [None, Some(""), Some("r"), Some("r/")];

fn expected_attr(m: &MapSpec, s: &Seg) -> Option<Attr> {
  s.orig.map(|(si, ol, oc, ni)| Attr {
    file: apply_root(m.root.as_deref(), &m.sources[si as usize]),
    content: m.contents.as_ref().and_then(|c| c.get(si as usize).cloned()).filter(|c| !c.is_empty()),
    line: ol,
    col: oc,
    name: ni.map(|n| m.names[n as usize].clone()),
  })
}

/// Treat the chunks of a (possibly text-less) stream as segments and resolve
/// against the tables announced in that stream.
fn attr_via_segments(s: &Stream, line: u32, col: u32, lines_only: bool) -> Option<Attr> {
  let views = s.views();
  let pick = if lines_only {
    views.iter().find(|v| v.gl == line && v.attr.is_some())
  } else {
    let mut best: Option<&crate::observe::ChunkView> = None;
    for v in &views {
      if v.gl == line && v.gc <= col {
        match best {
          Some(b) if b.gc > v.gc => {}
          _ => best = Some(v),
        }
      }
    }
    best
  };
  pick.and_then(|v| v.attr.clone()).map(|mut a| {
    if a.content.as_deref() == Some("") {
      a.content = None;
    }
    a
  })
}

pub fn c08_case(ctx: &mut Ctx, text: &str, m: &MapSpec) {
  ctx.evaluations += 1;
  let t = Term::Sms(Box::new(SmsSpec {
    value: text.to_string(),
    name: "gen.js".into(),
    map: m.clone(),
    original_source: None,
    inner: None,
    remove: false,
  }));
  crate::set_current_case(&t);
  ctx.begin_case(|| serde_json::to_string(&t).unwrap());
  let obs = match Obs::new(&t) {
    Ok(o) => o,
    Err(e) => return report_panic(ctx, &t, "build", &e),
  };
  let (pos, _end) = model::positions(text);
  let want: Vec<Option<Attr>> =
    pos.iter().map(|&(l, c)| refcodec::resolve(&m.segs, l, c).and_then(|s| expected_attr(m, s))).collect();
  let want_line = |l: u32| refcodec::first_mapped(&m.segs, l).and_then(|s| expected_attr(m, s)).map(|a| (a.file, a.line));
  let mapped = want.iter().filter(|a| a.is_some()).count();
  if mapped > 0 && m.segs.len() >= 2 {
    ctx.nontrivial += 1;
  }
  ctx.outcome(&(&want, text.len()));
  let nlines = pos.last().map(|p| p.0).unwrap_or(0);
  let fail = |ctx: &mut Ctx, clause: &str, sig: String, detail: String| {
    ctx.violation(clause, sig, None, || case_json(&t), m.segs.len() + text.len(), detail);
  };
  let mut streams: Vec<((bool, bool), Stream)> = Vec::new();
  for (columns, fin) in [(true, false), (true, true), (false, false), (false, true)] {
    match obs.stream(columns, fin) {
      Err(e) => report_panic(ctx, &t, &format!("stream({columns},{fin})"), &e),
      Ok(s) => {
        ctx.transitions += 1;
        // a stream that carries text must carry every character of T (a character that is not
        // streamed is not attributed at all)
        if !fin {
          if let Some(streamed) = s.text() {
            if streamed != text {
              fail(ctx, "sms_stream_text", format!("({columns},{fin})"), format!("({columns},{fin}): the chunks add up to {streamed:?}, T is {text:?}"));
            }
          }
        }
        if columns {
          for (i, &(l, c)) in pos.iter().enumerate() {
            let got = attr_via_segments(&s, l, c, false);
            if got != want[i] {
              fail(
                ctx,
                "sms_attribution",
                format!("columns=true final={fin}"),
                format!("({columns},{fin}) position {l}:{c} of {text:?}: map says {:?}, stream says {:?}", want[i], got),
              );
              break;
            }
          }
        } else {
          for l in 1..=nlines {
            let got = attr_via_segments(&s, l, 0, true).map(|a| (a.file, a.line));
            if got != want_line(l) {
              fail(
                ctx,
                "sms_line_attribution",
                format!("final={fin}"),
                format!("(false,{fin}) line {l} of {text:?}: map says {:?}, stream says {:?}", want_line(l), got),
              );
              break;
            }
          }
          if s.events.iter().any(|e| matches!(e, Ev::Chunk { orig: Some((_, _, _, Some(_))), .. })) {
            fail(ctx, "sms_lines_keep_names", format!("final={fin}"), "a columns=false chunk carries a name".into());
          }
        }
        // declared tables
        if !text.is_empty() {
          let srcs: Vec<(String, Option<String>)> = s
            .events
            .iter()
            .filter_map(|e| match e {
              Ev::Source { name, content, .. } => Some((name.clone(), content.clone().filter(|c| !c.is_empty()))),
              _ => None,
            })
            .collect();
          let want_srcs: Vec<(String, Option<String>)> = (0..m.sources.len())
            .map(|i| {
              (
                m.rooted(i).unwrap(),
                m.contents.as_ref().and_then(|c| c.get(i).cloned()).filter(|c| !c.is_empty()),
              )
            })
            .collect();
          if srcs != want_srcs {
            fail(
              ctx,
              "sms_declared_sources",
              format!("columns={columns} final={fin}"),
              format!("declared {srcs:?}, map has {want_srcs:?}"),
            );
          }
          if columns {
            let names: Vec<String> = s
              .events
              .iter()
              .filter_map(|e| match e {
                Ev::Name { name, .. } => Some(name.clone()),
                _ => None,
              })
              .collect();
            if names != m.names {
              fail(ctx, "sms_declared_names", format!("final={fin}"), format!("declared {names:?}, map has {:?}", m.names));
            }
          }
        }
        // ... and for the EMPTY text: the streamers return before they announce anything (as in
        // webpack-sources), so a map with sources / names is not "declared exactly": recorded as a
        // known finding under a narrow key; anything else an empty text declares is a violation
        if text.is_empty() {
          let declared_sources = s.events.iter().filter(|e| matches!(e, Ev::Source { .. })).count();
          let declared_names = s.events.iter().filter(|e| matches!(e, Ev::Name { .. })).count();
          if declared_sources == 0 && declared_names == 0 {
            if !m.sources.is_empty() || (columns && !m.names.is_empty()) {
              ctx.violation(
                "sms_empty_text_declares_no_tables",
                format!("columns={columns} final={fin}"),
                Some("KF3-empty-text-declares-no-tables".into()),
                || case_json(&t),
                m.segs.len() + text.len(),
                format!("T is empty, M has sources {:?} and names {:?}: the stream declares nothing", m.sources, m.names),
              );
            }
          } else if declared_sources != m.sources.len() || (columns && declared_names != m.names.len()) {
            fail(ctx, "sms_declared_sources", format!("columns={columns} final={fin} (empty text)"), format!("empty text: {declared_sources} sources and {declared_names} names declared, M has {:?} / {:?}", m.sources, m.names));
          }
        }
        streams.push(((columns, fin), s));
      }
    }
  }
  // through map() of an enclosing source
  let enclosing = Term::concat(vec![t.clone(), Term::raw("")]);
  match Obs::new(&enclosing) {
    Err(e) => report_panic(ctx, &enclosing, "build", &e),
    Ok(eo) => {
      match eo.map(true) {
        Err(e) => report_panic(ctx, &enclosing, "map(true)", &e),
        Ok(em) => {
          ctx.transitions += 1;
          for (i, &(l, c)) in pos.iter().enumerate() {
            let got = em.as_ref().and_then(|mm| mm.resolve(l, c));
            if got != want[i] {
              fail(
                ctx,
                "enclosing_map_attribution",
                String::new(),
                format!("Concat[sms, Raw(\"\")].map(true) position {l}:{c} of {text:?}: map says {:?}, got {:?}", want[i], got),
              );
              break;
            }
          }
        }
      }
      match eo.map(false) {
        Err(e) => report_panic(ctx, &enclosing, "map(false)", &e),
        Ok(em) => {
          ctx.transitions += 1;
          for l in 1..=nlines {
            let got = em.as_ref().and_then(|mm| mm.resolve_line(l)).map(|a| (a.file, a.line));
            if got != want_line(l) {
              fail(
                ctx,
                "enclosing_map_line_attribution",
                String::new(),
                format!("Concat[sms, Raw(\"\")].map(false) line {l} of {text:?}: map says {:?}, got {:?}", want_line(l), got),
              );
              break;
            }
          }
        }
      }
    }
  }
  // the same text and map served by a user source through stream_chunks_default
  let d = Term::Default(Box::new(DefaultSpec { text: text.to_string(), map: Some(m.clone()) }));
  match Obs::new(&d) {
    Err(e) => report_panic(ctx, &d, "build", &e),
    Ok(dobs) => {
      for ((columns, fin), s) in &streams {
        match dobs.stream(*columns, *fin) {
          Err(e) => report_panic(ctx, &d, &format!("default stream({columns},{fin})"), &e),
          Ok(ds) => {
            ctx.transitions += 1;
            if &ds != s {
              fail(
                ctx,
                "default_helper_differs",
                format!("columns={columns} final={fin}"),
                format!("stream_chunks_default yields {} events, SourceMapSource {}", ds.events.len(), s.events.len()),
              );
            }
          }
        }
      }
    }
  }
  ctx.traces_validated += 1;
}

pub fn texts(tier: &str) -> Vec<&'static str> {
  if tier == "thorough" {
    trees::TEXTS_FULL.to_vec()
  } else {
    vec!["", "a", "\n", "ab\n", "a;b", "a\nb", "a\n\nb;\n"]
  }
}

pub fn max_segs(tier: &str) -> usize {
  // texts of <= 4 chars get this many segments, longer ones one fewer
  if tier == "thorough" {
    6
  } else {
    5
  }
}

pub fn worker(tier: &str, k: usize, n: usize, ctx: &mut Ctx) {
  let mut st = Striper::new(k, n);
  for text in texts(tier) {
    let (mut pos, end) = model::positions(text);
    pos.push(end); // zero-width segment at end of text
    let lists = trees::seg_lists(&pos, &KINDS, if text.len() > 4 { max_segs(tier) - 1 } else { max_segs(tier) });
    for segs in lists.into_iter() {
      for root in ROOTS.iter() {
        if !st.mine() {
          continue;
        }
        for with_content in [true, false] {
          let mut m = trees::map_spec(segs.clone(), with_content);
          m.root = root.map(|r| r.to_string());
          ctx.states += 1;
          ctx.sample(20_000, 3, || json!({"text": text, "map": serde_json::to_value(&m).unwrap()}));
          c08_case(ctx, text, &m);
          // the same map with an EMPTY names table when no segment uses a name (declared names
          // are exactly those of M, and shortcuts keyed on "no names" must not change anything)
          if with_content && m.segs.iter().all(|s| !matches!(s.orig, Some((_, _, _, Some(_))))) {
            let mut m2 = m.clone();
            m2.names.clear();
            ctx.states += 1;
            ctx.count("cases_with_empty_names_table");
            c08_case(ctx, text, &m2);
          }
        }
      }
    }
  }
  // a map VALUE that lives on: attached and streamed, then the map returned by map() (a clone
  // taken after the stream) gets another sourceRoot through the setter and is attached again -
  // the second source reproduces the attribution of the map it was given, new root included
  for text in texts(tier) {
    let (pos, _end) = model::positions(text);
    let lists = trees::seg_lists(&pos, &KINDS, 2);
    for segs in lists.into_iter().step_by(11) {
      for (r1, r2) in [(None, Some("r")), (Some("r"), Some("q/")), (Some("r/"), None), (Some("a"), Some("a/"))] {
        if !st.mine() || segs.is_empty() {
          continue;
        }
        ctx.evaluations += 1;
        ctx.states += 1;
        ctx.count("reused_map_value_cases");
        let mut m1 = trees::map_spec(segs.clone(), true);
        m1.root = r1.map(|r| r.to_string());
        let mut m2 = m1.clone();
        m2.root = r2.map(|r| r.to_string());
        let t1 = Term::sms(text, "gen.js", m1.clone());
        crate::set_current_case(&t1);
        let r = crate::observe::guarded(|| {
          use rspack_sources::{MapOptions, Source, SourceMapSource, WithoutOriginalOptions};
          let first = SourceMapSource::new(WithoutOriginalOptions { value: text.to_string(), name: "gen.js", source_map: m1.to_source_map() });
          let _ = crate::observe::stream(&first, true, false);
          let _ = crate::observe::stream(&first, false, true);
          let mut reused = first.map(&MapOptions::default()).expect("pass-through map");
          reused.set_source_root(r2.map(|r| r.to_string()));
          let second = SourceMapSource::new(WithoutOriginalOptions { value: text.to_string(), name: "gen.js", source_map: reused });
          crate::observe::stream(&second, true, false)
        });
        match r {
          Ok(Ok(s)) => {
            for &(l, c) in &pos {
              let want = refcodec::resolve(&m2.segs, l, c).and_then(|sg| expected_attr(&m2, sg));
              let got = attr_via_segments(&s, l, c, false);
              if got != want {
                ctx.violation("reused_map_value_attribution", String::new(), None, || json!({"text": text, "map": serde_json::to_value(&m1).unwrap(), "new_root": r2}), segs.len() + text.len(), format!("after set_source_root({r2:?}) on the map returned by map(): position {l}:{c} of {text:?}: the map says {want:?}, the stream says {got:?}"));
                break;
              }
            }
          }
          Ok(Err(e)) | Err(e) => report_panic(ctx, &t1, "reused map value", &e),
        }
      }
    }
  }
  // more shapes of sourceRoot (several trailing slashes as in "webpack://", only slashes, inner
  // slashes, trailing blank) over every 5th segment list
  for text in texts(tier) {
    let (mut pos, end) = model::positions(text);
    pos.push(end);
    let lists = trees::seg_lists(&pos, &KINDS, 2);
    for segs in lists.into_iter().step_by(5) {
      for root in ["r//", "webpack://", "file:///", "/", "//", "a/b", "a/b/", "r/ ", "/r", "é/"] {
        if !st.mine() {
          continue;
        }
        let mut m = trees::map_spec(segs.clone(), true);
        m.root = Some(root.to_string());
        ctx.states += 1;
        ctx.count("extra_source_root_cases");
        c08_case(ctx, text, &m);
      }
    }
  }
  // sorted but not strictly: a second segment at the same position (the later one decides)
  for text in texts(tier) {
    let (mut pos, end) = model::positions(text);
    pos.push(end);
    let lists = trees::seg_lists(&pos, &KINDS, if tier == "thorough" { 3 } else { 2 });
    for segs in lists.into_iter() {
      if segs.is_empty() || !st.mine() {
        continue;
      }
      for i in 0..segs.len() {
        for k in KINDS {
          let mut dup = segs.clone();
          dup.insert(i + 1, Seg { gl: segs[i].gl, gc: segs[i].gc, orig: k });
          let m = trees::map_spec(dup, true);
          ctx.states += 1;
          ctx.count("maps_with_two_segments_at_one_position");
          c08_case(ctx, text, &m);
        }
      }
    }
  }
  crate::clear_current_case();
}

pub fn bounds(tier: &str) -> Value {
  json!({
    "engine": "E1 trees restricted to SourceMapSource / default-helper leaves",
    "texts": texts(tier),
    "max_segments": max_segs(tier),
    "segment_positions": "every character position and the end-of-text position, strictly increasing; plus every list of <= 2 (thorough 3) segments with one position doubled (each kind for the second segment)",
    "segment_kinds": "unmapped 1-field; 4-field into source 0 / 1; 5-field with name 0 / 1; one location both with and without name",
    "source_roots": ["<none>", "", "r", "r/"],
    "extra_source_roots_over_every_5th_list_of_up_to_2_segments": ["r//", "webpack://", "file:///", "/", "//", "a/b", "a/b/", "r/ ", "/r", "é/"],
    "modes": "columns x final in {T,F}^2 directly; map(true)/map(false) of Concat[sms, Raw('')]; same (T, M) through stream_chunks_default (event-for-event equal)",
  })
}
