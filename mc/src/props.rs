//! Per-property scopes (alphabets and bounds per tier) and worker entry points.

use serde_json::{json, Value};

use crate::{
  engine::Ctx,
  refcodec::Seg,
  term::{MapSpec, SmsSpec, Term},
  tree_checks as tc,
  trees::{self, Striper, TreeScope, K_A, K_B, K_C},
};

pub fn general_scope(tier: &str) -> TreeScope {
  let thorough = tier == "thorough";
  let texts: &[&str] = trees::TEXTS_FULL;
  let mut leaves = trees::raw_leaves(texts);
  leaves.extend(trees::orig_leaves(texts));
  let sms_texts: &[&str] = if thorough { &["a", "ab\n", "a\nb", "a;b", "a\n\nb"] } else { &["a", "ab\n", "a\nb", "a;b"] };
  leaves.extend(trees::sms_leaves(sms_texts, if thorough { 3 } else { 2 }, &[None, Some(K_A), Some(K_B)]));
  leaves.extend(trees::script_leaves(
    if thorough { &["ab", "a\nb", "ab\nc"] } else { &["ab", "a\nb"] },
    if thorough { 3 } else { 2 },
    &[None, Some(K_A), Some(K_B)],
    true,
  ));
  leaves.extend(trees::default_leaves(&["a\nb"], &[None, Some(K_A), Some(K_C)]));
  let mut small: Vec<Term> = Vec::new();
  for t in ["", "a", "\n", "a\nb", "a;b\n"] {
    small.push(Term::raw(t));
  }
  for t in ["", "a", "\n", "a\nb", "a;b"] {
    small.push(Term::orig(t, &trees::file_for(t, trees::TEXTS_FULL)));
  }
  // a few mapped leaves with several sources/names
  let sms_small = trees::sms_leaves(&["ab\n", "a\nb"], 2, &[None, Some(K_A), Some(K_B)]);
  for i in [3usize, 8, 17, 22, 40, 55] {
    if let Some(t) = sms_small.get(i) {
      small.push(t.clone());
    }
  }
  let scr_small = trees::script_leaves(&["a\nb"], 2, &[None, Some(K_A), Some(K_B)], true);
  for i in [1usize, 6, 11, 20, 27] {
    if let Some(t) = scr_small.get(i) {
      small.push(t.clone());
    }
  }
  TreeScope {
    leaves,
    small_leaves: small,
    repl_contents1: vec!["", "X", "\n", "Y\nZ"],
    repl_contents2: if thorough { vec!["", "X", "\n", "Y\nZ"] } else { vec!["", "X", "\n"] },
    repl_names: true,
    repl_max_leaf: if thorough { 3 } else { 2 },
    repl_max_composite: 2,
    concat3: true,
    level3: true,
  }
}

/// {Raw*, Orig, Concat, Replace, Cached}: true provenance is known.
pub fn provenance_scope(tier: &str) -> TreeScope {
  let thorough = tier == "thorough";
  let texts: &[&str] = trees::TEXTS_FULL;
  let mut leaves = trees::raw_leaves(&texts[..6]);
  leaves.extend(trees::orig_leaves(texts));
  for t in ["{a}", "a ;b", " a\n", ";\n;", "a\n\n"] {
    leaves.push(Term::orig(t, &format!("g{}", t.len() * 7 + t.as_bytes()[0] as usize)));
  }
  let mut small: Vec<Term> = Vec::new();
  for t in ["", "a", "\n", "a\nb"] {
    small.push(Term::raw(t));
  }
  for t in ["", "a", "\n", "a\nb", "a;b", "a\n\nb;\n"] {
    small.push(Term::orig(t, &trees::file_for(t, trees::TEXTS_FULL)));
  }
  TreeScope {
    leaves,
    small_leaves: small,
    repl_contents1: vec!["", "X", "\n", "Y\nZ"],
    repl_contents2: if thorough { vec!["", "X", "\n", "Y\nZ"] } else { vec!["", "X", "\n"] },
    repl_names: false,
    repl_max_leaf: if thorough { 3 } else { 2 },
    repl_max_composite: 2,
    concat3: true,
    level3: true,
  }
}

/// multi-byte texts, invalid UTF-8 buffers, wild maps
pub fn wild_leaves() -> Vec<Term> {
  let mut v = Vec::new();
  for t in trees::TEXTS_MB {
    v.push(Term::raw(t));
    v.push(Term::RawStr(t.to_string()));
    v.push(Term::orig(t, &format!("mb{}", t.len())));
    v.push(Term::RawBuf(t.as_bytes().to_vec()));
  }
  for b in [vec![0xffu8], vec![b'a', 0xc3], vec![0xe2, 0x82, b'\n', b'b'], vec![b'a', b'\n', 0x80, 0xf0, 0x9d]] {
    v.push(Term::RawBuf(b.clone()));
    v.push(Term::RawBufS(b));
  }
  // wild maps: segments outside the text, indices outside tables, line 0 impossible via encoder (lines are 1-based)
  let wild_segs: Vec<Vec<Seg>> = vec![
    vec![Seg { gl: 1, gc: 7, orig: Some(K_A) }],
    vec![Seg { gl: 3, gc: 0, orig: Some(K_A) }],
    vec![Seg { gl: 1, gc: 0, orig: Some((5, 1, 0, None)) }],
    vec![Seg { gl: 1, gc: 0, orig: Some((0, 1, 0, Some(9))) }],
    vec![Seg { gl: 1, gc: 0, orig: Some((0, 9, 9, None)) }],
    vec![Seg { gl: 1, gc: 1, orig: Some(K_B) }, Seg { gl: 1, gc: 9, orig: None }, Seg { gl: 5, gc: 2, orig: Some(K_A) }],
    vec![Seg { gl: 1, gc: 0, orig: Some((0, 0, 0, None)) }],
    vec![Seg { gl: 2, gc: 0, orig: Some((1, 0, 5, Some(0))) }],
  ];
  for text in ["", "a", "ab\ncd", "é\n€b", "\n"] {
    for (i, segs) in wild_segs.iter().enumerate() {
      for with_content in [true, false] {
        v.push(Term::Sms(Box::new(SmsSpec {
          value: text.to_string(),
          name: format!("w{i}"),
          map: trees::map_spec(segs.clone(), with_content),
          original_source: None,
          inner: None,
          remove: false,
        })));
      }
    }
  }
  // raw mappings strings with odd spellings
  for raw in ["", ";;;", "A", "AAAA,,;", "gAAAA", "AAAAA;AAAAA", "AAAC,CAAD"] {
    let mut m = MapSpec::new(vec![], &["s0"], Some(&["ab\ncd"]), &["n0"]);
    m.raw_mappings = Some(raw.to_string());
    v.push(Term::sms("ab\ncd", "rawmap", m));
  }
  v
}

pub fn wild_scope(_tier: &str) -> TreeScope {
  let leaves = wild_leaves();
  let small: Vec<Term> = vec![
    Term::raw("é"),
    Term::orig("a€\n", "mb4"),
    Term::raw(""),
    Term::RawBuf(vec![b'a', 0xc3]),
    leaves.iter().find(|t| matches!(t, Term::Sms(_))).unwrap().clone(),
  ];
  TreeScope {
    leaves,
    small_leaves: small,
    repl_contents1: vec!["", "X", "é\n"],
    repl_contents2: vec!["", "é"],
    repl_names: true,
    repl_max_leaf: 2,
    repl_max_composite: 1,
    concat3: true,
    level3: false,
  }
}

fn no_cached_under_replace(t: &Term) -> bool {
  !t.any(&|x| match x {
    Term::Replace(i, r) if !r.is_empty() => i.any(&|y| matches!(y, Term::Cached(_))),
    _ => false,
  })
}

pub fn sample_of(t: &Term) -> Value {
  json!({ "term": tc::case_json(t), "source": crate::model::model_text(t) })
}

/// Drive a tree check over a scope.
pub fn sweep(
  ctx: &mut Ctx,
  sc: &TreeScope,
  k: usize,
  n: usize,
  filter: &dyn Fn(&Term) -> bool,
  check: &mut dyn FnMut(&mut Ctx, &Term),
) {
  let mut st = Striper::new(k, n);
  trees::for_each_tree(sc, &mut st, &mut |t| {
    if !filter(t) {
      return;
    }
    crate::set_current_case(t);
    ctx.begin_case(|| serde_json::to_string(t).unwrap());
    ctx.states += 1;
    ctx.sample(50_000, 3, || sample_of(t));
    check(ctx, t);
  });
  crate::clear_current_case();
}

pub fn tree_worker(prop: &str, tier: &str, k: usize, n: usize, ctx: &mut Ctx) {
  let all = |_: &Term| true;
  match prop {
    "C01" => {
      sweep(ctx, &general_scope(tier), k, n, &all, &mut |c, t| tc::c01(c, t));
      sweep(ctx, &wild_scope(tier), k, n, &all, &mut |c, t| tc::c01(c, t));
    }
    "C02" => sweep(ctx, &general_scope(tier), k, n, &all, &mut |c, t| tc::c02(c, t)),
    "C03" => sweep(ctx, &general_scope(tier), k, n, &all, &mut |c, t| tc::c03(c, t)),
    "C04" => sweep(ctx, &provenance_scope(tier), k, n, &no_cached_under_replace, &mut |c, t| tc::c04(c, t)),
    "C07" => {
      sweep(ctx, &general_scope(tier), k, n, &all, &mut |c, t| tc::c07_views(c, t));
      sweep(ctx, &wild_scope(tier), k, n, &all, &mut |c, t| {
        tc::c07_views(c, t);
        tc::c07_faults(c, t)
      });
      // faults over a reduced general scope (each tree runs size+~20 writers)
      let mut sc = general_scope(tier);
      sc.repl_max_leaf = 1;
      sc.repl_max_composite = 1;
      sc.level3 = false;
      sweep(ctx, &sc, k, n, &all, &mut |c, t| tc::c07_faults(c, t));
    }
    "C11" => sweep(ctx, &general_scope(tier), k, n, &all, &mut |c, t| tc::c11(c, t)),
    _ => panic!("no tree worker for {prop}"),
  }
}

pub fn tree_bounds(prop: &str, tier: &str) -> Value {
  let sc = match prop {
    "C04" => provenance_scope(tier),
    _ => general_scope(tier),
  };
  json!({
    "engine": "E1 trees (explicit-state enumeration of construction programs, BFS levels 0..3)",
    "leaves": sc.leaves.len(),
    "concat_child_leaves": sc.small_leaves.len(),
    "replacement_contents_single": sc.repl_contents1,
    "replacement_contents_sets": sc.repl_contents2,
    "max_replacements_over_leaf": sc.repl_max_leaf,
    "max_replacements_over_composite": sc.repl_max_composite,
    "replacement_positions": "every start<=end in 0..=len+2 (leaf) / len+1 (composite)",
    "levels": "0 leaves; 1 wrappers, all pairs/triples of child leaves, Replace(leaf, all sets); 2 Replace(Concat pair, sets), Concat[Replace,leaf], Cached/Boxed composites, nested Concat in 4 grouping styles; 3 Replace(Replace(leaf,1),1)",
    "wild_leaves": if matches!(prop, "C01" | "C07") { wild_leaves().len() } else { 0 },
  })
}
