//! Per-property scopes (alphabets and bounds per tier) and worker entry points.

use serde_json::{json, Value};

use crate::{
  engine::Ctx,
  refcodec::Seg,
  term::{MapSpec, SmsSpec, Term},
  tree_checks as tc,
  trees::{self, Striper, TreeScope, K_A, K_B, K_C},
};

pub fn general_scope(tier: &str) -> TreeScope {
  let thorough = tier == "thorough";
  let texts: &[&str] = trees::TEXTS_FULL;
  let mut leaves = trees::raw_leaves(texts);
  leaves.extend(trees::orig_leaves(texts));
  let sms_texts: &[&str] = if thorough { &["a", "ab\n", "a\nb", "a;b", "a\n\nb"] } else { &["a", "ab\n", "a\nb", "a;b"] };
  leaves.extend(trees::sms_leaves(sms_texts, if thorough { 3 } else { 2 }, &[None, Some(K_A), Some(K_B)]));
  leaves.extend(trees::script_leaves(
    if thorough { &["ab", "a\nb", "ab\nc"] } else { &["ab", "a\nb"] },
    if thorough { 3 } else { 2 },
    &[None, Some(K_A), Some(K_B)],
    true,
  ));
  leaves.extend(trees::default_leaves(&["a\nb"], &[None, Some(K_A), Some(K_C)]));
  let mut small: Vec<Term> = Vec::new();
  // ("\nab": the only line break is the first byte, the last line is unterminated)
  for t in ["", "a", "\n", "a\nb", "a;b\n", "\nab"] {
    small.push(Term::raw(t));
  }
  for t in ["", "a", "\n", "a\nb", "a;b"] {
    small.push(Term::orig(t, &trees::file_for(t, trees::TEXTS_FULL)));
  }
  small.push(Term::RawBufS(b"a\nb".to_vec()));
  // a few mapped leaves with several sources/names
  let sms_small = trees::sms_leaves(&["ab\n", "a\nb"], 2, &[None, Some(K_A), Some(K_B)]);
  for i in [3usize, 8, 17, 22, 40, 55] {
    if let Some(t) = sms_small.get(i) {
      small.push(t.clone());
    }
  }
  let scr_small = trees::script_leaves(&["a\nb"], 2, &[None, Some(K_A), Some(K_B)], true);
  for i in [1usize, 6, 11, 20, 27] {
    if let Some(t) = scr_small.get(i) {
      small.push(t.clone());
    }
  }
  let nv = trees::named_variants();
  small.push(nv[1].clone());
  small.push(nv[4].clone());
  small.push(nv[6].clone());
  small.push(nv[nv.len() - 1].clone()); // name table listing one string twice
  TreeScope {
    leaves,
    small_leaves: small,
    repl_contents1: vec!["", "X", "\n", "Y\nZ"],
    repl_contents2: if thorough { vec!["", "X", "\n", "Y\nZ"] } else { vec!["", "X", "\n"] },
    repl_names: true,
    repl_max_leaf: if thorough { 3 } else { 2 },
    repl_max_composite: 2,
    concat3: true,
    level3: true,
  }
}

/// {Raw*, Orig, Concat, Replace, Cached}: true provenance is known.
pub fn provenance_scope(tier: &str) -> TreeScope {
  let thorough = tier == "thorough";
  let texts: &[&str] = trees::TEXTS_FULL;
  let mut leaves = trees::raw_leaves(&texts[..6]);
  leaves.extend(trees::orig_leaves(texts));
  // (the last three: TAB and CR inside the run that follows a ';', '{' or '}')
  // (... and lines made only of blanks)
  for t in ["{a}", "a ;b", " a\n", ";\n;", "a\n\n", "a;\tb", "{\ta;}\t\tb", "a;\r\tb;\t", "a;\n  \nb", "\t\n \na"] {
    leaves.push(Term::orig(t, &format!("g{}", t.len() * 7 + t.as_bytes()[0] as usize)));
  }
  let mut small: Vec<Term> = Vec::new();
  for t in ["", "a", "\n", "a\nb"] {
    small.push(Term::raw(t));
  }
  for t in ["", "a", "\n", "a\nb", "a;b", "a\n\nb;\n"] {
    small.push(Term::orig(t, &trees::file_for(t, trees::TEXTS_FULL)));
  }
  small.push(Term::RawBufS(b"a\nb".to_vec()));
  TreeScope {
    leaves,
    small_leaves: small,
    repl_contents1: vec!["", "X", "\n", "Y\nZ"],
    repl_contents2: if thorough { vec!["", "X", "\n", "Y\nZ"] } else { vec!["", "X", "\n"] },
    repl_names: false,
    repl_max_leaf: if thorough { 3 } else { 2 },
    repl_max_composite: 2,
    concat3: true,
    level3: true,
  }
}

/// multi-byte texts, invalid UTF-8 buffers, wild maps
pub fn wild_leaves() -> Vec<Term> {
  let mut v = Vec::new();
  for t in trees::TEXTS_MB {
    v.push(Term::raw(t));
    v.push(Term::RawStr(t.to_string()));
    v.push(Term::orig(t, &format!("mb{}", t.len())));
    v.push(Term::RawBuf(t.as_bytes().to_vec()));
  }
  for b in [vec![0xffu8], vec![b'a', 0xc3], vec![0xe2, 0x82, b'\n', b'b'], vec![b'a', b'\n', 0x80, 0xf0, 0x9d]] {
    v.push(Term::RawBuf(b.clone()));
    v.push(Term::RawBufS(b));
  }
  // wild maps: segments outside the text, indices outside tables, line 0 impossible via encoder (lines are 1-based)
  let wild_segs: Vec<Vec<Seg>> = vec![
    vec![Seg { gl: 1, gc: 7, orig: Some(K_A) }],
    vec![Seg { gl: 3, gc: 0, orig: Some(K_A) }],
    vec![Seg { gl: 1, gc: 0, orig: Some((5, 1, 0, None)) }],
    vec![Seg { gl: 1, gc: 0, orig: Some((0, 1, 0, Some(9))) }],
    vec![Seg { gl: 1, gc: 0, orig: Some((0, 9, 9, None)) }],
    vec![Seg { gl: 1, gc: 1, orig: Some(K_B) }, Seg { gl: 1, gc: 9, orig: None }, Seg { gl: 5, gc: 2, orig: Some(K_A) }],
    vec![Seg { gl: 1, gc: 0, orig: Some((0, 0, 0, None)) }],
    vec![Seg { gl: 2, gc: 0, orig: Some((1, 0, 5, Some(0))) }],
    vec![Seg { gl: 1, gc: 1 << 30, orig: Some((1 << 30, 1 << 30, 1 << 30, Some(1 << 30))) }],
    vec![Seg { gl: 1, gc: 0, orig: Some((1 << 30, 1 << 30, 1 << 30, Some(1 << 30))) }, Seg { gl: 2, gc: 1, orig: Some((0, 2, 1 << 30, None)) }],
  ];
  for text in ["", "a", "ab\ncd", "é\n€b", "\n"] {
    for (i, segs) in wild_segs.iter().enumerate() {
      for with_content in [true, false] {
        v.push(Term::Sms(Box::new(SmsSpec {
          value: text.to_string(),
          name: format!("w{i}"),
          map: trees::map_spec(segs.clone(), with_content),
          original_source: None,
          inner: None,
          remove: false,
        })));
      }
    }
  }
  // raw mappings strings with odd spellings
  for raw in ["", ";;;", "A", "AAAA,,;", "gAAAA", "AAAAA;AAAAA", "AAAC,CAAD"] {
    let mut m = MapSpec::new(vec![], &["s0"], Some(&["ab\ncd"]), &["n0"]);
    m.raw_mappings = Some(raw.to_string());
    v.push(Term::sms("ab\ncd", "rawmap", m));
  }
  v
}

pub fn wild_scope(_tier: &str) -> TreeScope {
  let leaves = wild_leaves();
  let small: Vec<Term> = vec![
    Term::raw("é"),
    Term::orig("a€\n", "mb4"),
    Term::raw(""),
    Term::RawBuf(vec![b'a', 0xc3]),
    leaves.iter().find(|t| matches!(t, Term::Sms(_))).unwrap().clone(),
  ];
  TreeScope {
    leaves,
    small_leaves: small,
    repl_contents1: vec!["", "X", "é\n"],
    repl_contents2: vec!["", "é"],
    repl_names: true,
    repl_max_leaf: 2,
    repl_max_composite: 1,
    concat3: true,
    level3: false,
  }
}

fn no_cached_under_replace(t: &Term) -> bool {
  !t.any(&|x| match x {
    Term::Replace(i, r) if !r.is_empty() => i.any(&|y| matches!(y, Term::Cached(_))),
    _ => false,
  })
}

pub fn sample_of(t: &Term) -> Value {
  json!({ "term": tc::case_json(t), "source": crate::model::model_text(t) })
}

/// Drive a tree check over a scope.
pub fn sweep(
  ctx: &mut Ctx,
  sc: &TreeScope,
  k: usize,
  n: usize,
  filter: &dyn Fn(&Term) -> bool,
  check: &mut dyn FnMut(&mut Ctx, &Term),
) {
  let mut st = Striper::new(k, n);
  trees::for_each_tree(sc, &mut st, &mut |t| {
    if !filter(t) {
      return;
    }
    crate::set_current_case(t);
    ctx.begin_case(|| serde_json::to_string(t).unwrap());
    ctx.states += 1;
    ctx.sample(50_000, 3, || sample_of(t));
    check(ctx, t);
  });
  crate::clear_current_case();
}

pub fn tree_worker(prop: &str, tier: &str, k: usize, n: usize, ctx: &mut Ctx) {
  let all = |_: &Term| true;
  match prop {
    "C01" => {
      sweep(ctx, &general_scope(tier), k, n, &all, &mut |c, t| tc::c01(c, t));
      sweep(ctx, &wild_scope(tier), k, n, &all, &mut |c, t| tc::c01(c, t));
      let mut st = Striper::new(k, n);
      for_each_wild_map_leaf(tier, &mut st, &mut |t| {
        for w in wild_contexts(t) {
          crate::set_current_case(&w);
          ctx.states += 1;
          tc::c01(ctx, &w);
        }
      });
      crate::clear_current_case();
      // sorted maps with a segment far beyond its line, under pairs of replacements (found F15)
      {
        let mut st = Striper::new(k, n);
        for_each_far_column_tree(tier, &mut st, &mut |w| {
          crate::set_current_case(w);
          ctx.states += 1;
          ctx.count("far_column_family_trees");
          tc::c01(ctx, w);
        });
        crate::clear_current_case();
      }
      {
        let mut st = Striper::new(k, n);
        for_each_far_replacement_tree(tier, &mut st, &mut |w| {
          crate::set_current_case(w);
          ctx.states += 1;
          ctx.count("far_replacement_family_trees");
          tc::c01(ctx, w);
        });
        crate::clear_current_case();
      }
      // SourceMapSource with an inner map whose segments, source and name indices point outside the
      // text or the tables (the combined-map streamer forwards the text itself, so a chunk it drops on
      // an undeclared index is text missing from the stream)
      {
        let mut st = Striper::new(k, n);
        let mut wc = 0u64;
        for_each_wild_combined(&mut st, &mut |t| {
          wc += 1;
          if tier != "thorough" && wc > 48 && wc % 3 != 0 {
            return;
          }
          crate::set_current_case(t);
          ctx.states += 1;
          ctx.count("wild_combined_trees");
          tc::c01(ctx, t);
        });
        for_each_wild_combined_huge_columns(&mut st, &mut |t| {
          crate::set_current_case(t);
          ctx.states += 1;
          ctx.count("wild_combined_trees");
          tc::c01(ctx, t);
        });
        crate::clear_current_case();
      }
      // C01 quantifies over ANY attached map: also maps whose segments are not sorted
      // (columns or lines going backwards). C17/C19 keep to sorted maps.
      for raw in ["CAAC,DAAD", "MAAA,FAAA,EAAA", "AAAA;AACA,DAAA", "KAAA,AAAA,DAAA", "EAAA;AACA;;DAAA,CAAA", "IAAA,FAAA;AAAA,KAAA,HAAA"] {
        for text in ["hello world\n", "ab\ncdef", "abcdef"] {
          if !st.mine() {
            continue;
          }
          let mut m = MapSpec::new(vec![], &["s0"], Some(&["ab\ncd"]), &["n0"]);
          m.raw_mappings = Some(raw.to_string());
          let leaf = Term::sms(text, "unsorted.js", m);
          for w in wild_contexts(&leaf) {
            crate::set_current_case(&w);
            ctx.states += 1;
            ctx.count("unsorted_map_cases");
            tc::c01(ctx, &w);
          }
        }
      }
      crate::clear_current_case();
    }
    "C02" => sweep(ctx, &general_scope(tier), k, n, &all, &mut |c, t| tc::c02(c, t)),
    "C03" => {
      sweep(ctx, &general_scope(tier), k, n, &all, &mut |c, t| tc::c03(c, t));
      // SourceMapSource with an inner map: map() and the stream go through the same composition
      let mut st = Striper::new(k, n);
      let mut cnt = 0u64;
      crate::c09::for_each_combined_term("quick", &mut st, &mut |t| {
        cnt += 1;
        if tier != "thorough" && cnt % 3 != 0 {
          return;
        }
        crate::set_current_case(t);
        ctx.states += 1;
        ctx.count("combined_map_leaves");
        tc::c03(ctx, t);
        // the same with an outer sourceRoot: the outer map lists the inner source relative to the root,
        // the SourceMapSource is named by the joined path (map() and the stream must agree on what
        // "the inner source" is)
        if tier == "thorough" || cnt % 2 == 0 {
          if let Term::Sms(spec) = t {
            let mut s2 = (**spec).clone();
            s2.map.root = Some("src".into());
            s2.name = format!("src/{}", s2.name);
            let t2 = Term::Sms(Box::new(s2));
            crate::set_current_case(&t2);
            ctx.states += 1;
            ctx.count("combined_map_leaves_with_source_root");
            tc::c03(ctx, &t2);
          }
        }
      });
      crate::clear_current_case();
    }
    "C04" => {
      sweep(ctx, &provenance_scope(tier), k, n, &no_cached_under_replace, &mut |c, t| tc::c04(c, t));
      // one cached node that holds the SAME original text twice on one output line with raw text in
      // between (a helper used twice): the replayed map repeats an original location after a close
      let mut st = Striper::new(k, n);
      let o = |t: &str| Term::orig(t, &trees::file_for(t, trees::TEXTS_FULL));
      for a in ["a", "a;b", "ab\n", "a\nb"] {
        for r in ["x", "", " ", "\n", "x\n"] {
          for b in ["a", "a;b", "ab\n"] {
            if !st.mine() {
              continue;
            }
            let inner = Term::concat(vec![o(a), Term::raw(r), o(a), Term::raw(r), o(b)]);
            for t in [Term::cached(inner.clone()), Term::concat(vec![Term::cached(inner.clone()), o("a\nb")]), Term::concat(vec![Term::raw("q"), Term::cached(Term::concat(vec![o(a), Term::raw(r), o(a)]))])] {
              crate::set_current_case(&t);
              ctx.states += 1;
              ctx.count("cached_repeated_original_trees");
              tc::c04(ctx, &t);
            }
          }
        }
      }
      crate::clear_current_case();
    }
    "C07" => {
      sweep(ctx, &general_scope(tier), k, n, &all, &mut |c, t| {
        tc::c07_views(c, t);
        tc::c07_staged_concat(c, t)
      });
      sweep(ctx, &wild_scope(tier), k, n, &all, &mut |c, t| {
        tc::c07_views(c, t);
        tc::c07_staged_concat(c, t);
        tc::c07_faults(c, t)
      });
      // byte buffers that cut multi-byte sequences at their borders, as adjacent children handed over
      // by value through add() (typed) and through new() (boxed): all ordered pairs and triples
      {
        let bufs: Vec<Vec<u8>> = vec![vec![0xe2, 0x82], vec![0xac], vec![0xc3], vec![0xa9, b'\n'], vec![b'a'], vec![0xff], vec![], vec![0xf0, 0x9f], vec![0x98, 0x80]];
        let mut kids: Vec<Term> = Vec::new();
        for b in &bufs {
          kids.push(Term::RawBufS(b.clone()));
          kids.push(Term::RawBuf(b.clone()));
        }
        let mut st = Striper::new(k, n);
        let mut run = |ctx: &mut Ctx, children: Vec<Term>| {
          for (typed, add) in [(true, true), (false, true), (false, false), (true, false)] {
            if !st.mine() {
              continue;
            }
            let t = Term::Concat { children: children.clone(), typed, add };
            crate::set_current_case(&t);
            ctx.states += 1;
            ctx.count("adjacent_binary_children");
            tc::c07_views(ctx, &t);
          }
        };
        for a in &kids {
          for b in &kids {
            run(ctx, vec![a.clone(), b.clone()]);
            if matches!(a, Term::RawBufS(_)) && matches!(b, Term::RawBufS(_)) {
              for c in kids.iter().step_by(2) {
                run(ctx, vec![a.clone(), b.clone(), c.clone()]);
                run(ctx, vec![Term::orig("x", "x.js"), a.clone(), b.clone(), c.clone()]);
              }
            }
          }
        }
        crate::clear_current_case();
      }
      // faults over a reduced general scope (each tree runs size+~20 writers)
      let mut sc = general_scope(tier);
      sc.repl_max_leaf = 1;
      sc.repl_max_composite = 1;
      sc.level3 = false;
      sweep(ctx, &sc, k, n, &all, &mut |c, t| tc::c07_faults(c, t));
    }
    "C11" => {
      sweep(ctx, &general_scope(tier), k, n, &all, &mut |c, t| tc::c11(c, t));
      // SourceMapSource with inner map (the C09 family, incl. source names shared between the outer
      // and the inner map), seen directly and below ReplaceSource / CachedSource
      let mut st = Striper::new(k, n);
      let mut cnt = 0u64;
      crate::c09::for_each_combined_term("quick", &mut st, &mut |t| {
        cnt += 1;
        if tier != "thorough" && cnt % 3 != 0 {
          return;
        }
        for w in [t.clone(), Term::replace(t.clone(), vec![crate::term::Repl::new(1, 2, "X")]), Term::cached(t.clone())] {
          crate::set_current_case(&w);
          ctx.states += 1;
          tc::c11(ctx, &w);
        }
      });
      crate::clear_current_case();
      // NAMED replacements over composites whose children announce names of their own, lazily (a later
      // child's names arrive after a replacement name was allocated): the two numbering sites of
      // ReplaceSource must draw from one counter
      {
        use crate::term::Repl;
        let nv = trees::named_variants();
        let mut st = Striper::new(k, n);
        for a in &nv {
          for b in &nv {
            let inner = Term::concat(vec![a.clone(), b.clone()]);
            let len = crate::model::model_text(&inner).len() as u32;
            for s0 in 0..=len {
              for e0 in s0..=(s0 + 2).min(len + 1) {
                if !st.mine() {
                  continue;
                }
                for content in ["", "X"] {
                  for name in ["zz", "n1"] {
                    let mut sets = vec![vec![Repl::new(s0, e0, content).named(name)]];
                    // a second named replacement at every later position (quick: a third of them)
                    for s1 in e0..=len {
                      if tier == "thorough" || (s0 + e0 + s1) % 3 == 0 {
                        sets.push(vec![Repl::new(s0, e0, content).named(name), Repl::new(s1, (s1 + 1).min(len + 1), "Q").named("late")]);
                      }
                    }
                    for set in sets {
                      for w in [Term::replace(inner.clone(), set.clone()), Term::cached(Term::replace(inner.clone(), set.clone())), Term::concat(vec![Term::replace(inner.clone(), set.clone()), b.clone()])] {
                        crate::set_current_case(&w);
                        ctx.states += 1;
                        ctx.count("named_replacements_over_named_composites");
                        tc::c11(ctx, &w);
                      }
                    }
                  }
                }
              }
            }
          }
        }
        crate::clear_current_case();
      }
    }
    _ => panic!("no tree worker for {prop}"),
  }
}

pub fn tree_bounds(prop: &str, tier: &str) -> Value {
  let sc = match prop {
    "C04" => provenance_scope(tier),
    _ => general_scope(tier),
  };
  json!({
    "engine": "E1 trees (explicit-state enumeration of construction programs, BFS levels 0..3)",
    "leaves": sc.leaves.len(),
    "concat_child_leaves": sc.small_leaves.len(),
    "replacement_contents_single": sc.repl_contents1,
    "replacement_contents_sets": sc.repl_contents2,
    "max_replacements_over_leaf": sc.repl_max_leaf,
    "max_replacements_over_composite": sc.repl_max_composite,
    "replacement_positions": "every start<=end in 0..=len+2 (leaf) / len+1 (composite)",
    "levels": "0 leaves; 1 wrappers, all pairs/triples of child leaves, Replace(leaf, all sets); 2 Replace(Concat pair, sets), Concat[Replace,leaf], Cached/Boxed composites, nested Concat in 4 grouping styles; 3 Replace(Replace(leaf,1),1)",
    "wild_leaves": if matches!(prop, "C01" | "C07") { wild_leaves().len() } else { 0 },
  })
}

// ---------------------------------------------------------------- C13

pub fn c13_pool(tier: &str) -> Vec<Term> {
  use crate::term::Repl;
  let sc = general_scope(tier);
  let mut pool: Vec<Term> = sc.small_leaves.clone();
  let o = |t: &str| Term::orig(t, &trees::file_for(t, trees::TEXTS_FULL));
  pool.push(Term::replace(o("a\nb"), vec![Repl::new(1, 2, "")]));
  pool.push(Term::replace(o("a;b"), vec![Repl::new(1, 1, "X\n")]));
  pool.push(Term::replace(Term::raw("a\nb"), vec![Repl::new(0, 1, "Y\nZ")]));
  pool.push(Term::replace(Term::raw(""), vec![Repl::new(0, 1, "Y\nZ")]));
  pool.push(Term::replace(o("a"), vec![Repl::new(0, 1, "")]));
  pool.push(Term::concat(vec![o("a"), Term::raw("b")]));
  pool.push(Term::concat(vec![Term::raw("a\n"), o("a\nb")]));
  pool.push(Term::cached(o("a;b")));
  pool.push(Term::cached(Term::concat(vec![o("a"), Term::raw("\n")])));
  pool.push(Term::boxed(Term::concat(vec![o("a\nb"), o("a")])));
  pool.push(Term::RawBuf(b"a\n".to_vec()));
  pool.push(Term::RawStr("b".into()));
  pool.extend(trees::named_variants().into_iter().step_by(2));
  pool.extend(trees::named_variants().into_iter().filter(|t| matches!(t, Term::Sms(s) if s.name == "nvlong")));
  if tier == "thorough" {
    let extra = trees::sms_leaves(&["ab\n", "a\nb"], 2, &[None, Some(K_A), Some(K_B)]);
    pool.extend(extra.into_iter().step_by(3).take(24));
    let extra = trees::script_leaves(&["a\nb", "ab"], 2, &[None, Some(K_A), Some(K_B)], true);
    pool.extend(extra.into_iter().step_by(2).take(24));
    for t in trees::TEXTS_FULL {
      pool.push(o(t));
      pool.push(Term::raw(t));
      pool.push(Term::replace(o(t), vec![Repl::new(1, 3, "X")]));
      pool.push(Term::replace(Term::raw(t), vec![Repl::new(0, 0, "\n"), Repl::new(2, 9, "")]));
    }
  }
  pool.sort();
  pool.dedup();
  pool
}

pub fn c13_worker(tier: &str, k: usize, n: usize, ctx: &mut Ctx) {
  use crate::term::Repl;
  let pool = c13_pool(tier);
  let mut st = Striper::new(k, n);
  let mk = |children: Vec<Term>, typed: bool, add: bool| Term::Concat { children, typed, add };
  // unary laws
  for a in &pool {
    if !st.mine() {
      continue;
    }
    crate::set_current_case(a);
    ctx.begin_case(|| serde_json::to_string(a).unwrap());
    ctx.states += 1;
    ctx.sample(40, 2, || sample_of(a));
    tc::c13_pair(ctx, "single_child_concat", a, &Term::concat(vec![a.clone()]), false);
    tc::c13_pair(ctx, "single_child_concat_add", a, &mk(vec![a.clone()], true, true), false);
    tc::c13_pair(ctx, "cached", a, &Term::cached(a.clone()), false);
    tc::c13_pair(ctx, "cached_cached", a, &Term::cached(Term::cached(a.clone())), false);
    tc::c13_pair(ctx, "boxed", a, &Term::boxed(a.clone()), false);
    tc::c13_pair(ctx, "replace_none", a, &Term::replace(a.clone(), vec![]), false);
    ctx.transitions += 6;
    for e in [Term::raw(""), Term::orig("", "f0"), Term::RawStr(String::new()), Term::RawBuf(vec![]), Term::concat(vec![])] {
      tc::c13_pair(ctx, "concat_empty_right", a, &Term::concat(vec![a.clone(), e.clone()]), false);
      tc::c13_pair(ctx, "concat_empty_left", a, &Term::concat(vec![e.clone(), a.clone()]), false);
      tc::c13_pair(ctx, "concat_empty_both_add", a, &mk(vec![e.clone(), a.clone(), e.clone()], false, true), false);
      ctx.transitions += 3;
    }
    // only empty replacements: every single position and every pair of positions
    let len = crate::model::model_text(a).len() as u32;
    for p in 0..=len + 1 {
      tc::c13_pair(ctx, "replace_empty_insert", a, &Term::replace(a.clone(), vec![Repl::new(p, p, "")]), true);
      ctx.transitions += 1;
      for q in p..=len + 1 {
        tc::c13_pair(
          ctx,
          "replace_empty_inserts",
          a,
          &Term::replace(a.clone(), vec![Repl::new(q, q, "").enf(2), Repl::new(p, p, "")]),
          true,
        );
        ctx.transitions += 1;
      }
    }
  }
  // the unary laws once more with the wrapped source as a CHILD of a ConcatSource whose other child
  // announces sources and names of its own first (so the parent's renumbering of source and name
  // indices is not the identity), and with NAMED empty insertions
  let nv = trees::named_variants();
  let siblings: Vec<Term> = vec![nv[1].clone(), nv[4].clone(), Term::orig("a;b", "f4")];
  for a in &pool {
    if !st.mine() {
      continue;
    }
    crate::set_current_case(a);
    ctx.states += 1;
    let len = crate::model::model_text(a).len() as u32;
    let mut wrapped: Vec<(&str, Term, bool)> = vec![
      ("replace_none", Term::replace(a.clone(), vec![]), false),
      ("replace_none_boxed", Term::replace(Term::boxed(a.clone()), vec![]), false),
      ("cached", Term::cached(a.clone()), false),
      ("boxed", Term::boxed(a.clone()), false),
      ("single_child_concat", Term::concat(vec![a.clone()]), false),
    ];
    for p in 0..=len + 1 {
      wrapped.push(("replace_empty_insert_named", Term::replace(a.clone(), vec![Repl::new(p, p, "").named("zz")]), true));
      wrapped.push(("replace_empty_insert", Term::replace(a.clone(), vec![Repl::new(p, p, "")]), true));
    }
    for (law, w, adv) in &wrapped {
      if law.ends_with("_named") {
        tc::c13_pair(ctx, law, a, w, *adv);
        ctx.transitions += 1;
      }
      for sib in &siblings {
        tc::c13_pair(ctx, &format!("{law}_as_second_child"), &Term::concat(vec![sib.clone(), a.clone()]), &Term::concat(vec![sib.clone(), w.clone()]), *adv);
        tc::c13_pair(ctx, &format!("{law}_as_first_child"), &Term::concat(vec![a.clone(), sib.clone()]), &Term::concat(vec![w.clone(), sib.clone()]), *adv);
        ctx.transitions += 2;
      }
    }
    // a ReplaceSource with only empty (also named) insertions around a boxed two-child composite,
    // the second child plain and behind a cache (asked twice: the cache then replays)
    for (sib, second) in siblings.iter().flat_map(|s| [(s, a.clone()), (s, Term::cached(a.clone()))]) {
      let pair = Term::concat(vec![sib.clone(), second]);
      let plen = crate::model::model_text(&pair).len() as u32;
      for p in 0..=plen + 1 {
        for named in [false, true] {
          let r = if named { Repl::new(p, p, "").named("zz") } else { Repl::new(p, p, "") };
          let base = pair.strip_cached();
          tc::c13_pair(ctx, if named { "replace_empty_insert_named_over_pair" } else { "replace_empty_insert_over_pair" }, &base, &Term::replace(Term::boxed(pair.clone()), vec![r]), true);
          ctx.transitions += 1;
        }
      }
    }
  }
  // grouping laws over all ordered triples
  for a in &pool {
    for b in &pool {
      for c in &pool {
        if !st.mine() {
          continue;
        }
        let flat = Term::concat(vec![a.clone(), b.clone(), c.clone()]);
        crate::set_current_case(&flat);
        ctx.begin_case(|| serde_json::to_string(&flat).unwrap());
        ctx.states += 1;
        ctx.sample(20_000, 2, || sample_of(&flat));
        let ab = |typed, add| mk(vec![a.clone(), b.clone()], typed, add);
        let bc = |typed, add| mk(vec![b.clone(), c.clone()], typed, add);
        let variants: Vec<(&str, Term)> = vec![
          ("nested_typed_left", mk(vec![ab(true, false), c.clone()], true, false)),
          ("nested_boxed_left", mk(vec![ab(false, false), c.clone()], false, false)),
          ("nested_typed_right", mk(vec![a.clone(), bc(true, false)], true, false)),
          ("nested_boxed_right", mk(vec![a.clone(), bc(false, false)], false, false)),
          ("added_later", mk(vec![a.clone(), b.clone(), c.clone()], false, true)),
          ("added_later_nested_typed", mk(vec![ab(true, true), c.clone()], true, true)),
          ("added_later_nested_boxed", mk(vec![a.clone(), bc(false, true)], false, true)),
          ("double_boxed_nested", mk(vec![Term::boxed(ab(false, false)), c.clone()], false, false)),
        ];
        for (law, v) in &variants {
          tc::c13_pair(ctx, law, &flat, v, false);
          ctx.transitions += 1;
        }
      }
    }
  }
  crate::clear_current_case();
}

pub fn c13_bounds(tier: &str) -> Value {
  let pool = c13_pool(tier);
  json!({
    "engine": "E1 trees: all ordered triples of the pool x 8 grouping styles; per pool element 6 wrapper laws, 15 empty-concatenation laws, all single and paired empty insertions",
    "pool": pool.len(),
    "triples": pool.len().pow(3),
  })
}

// ---------------------------------------------------------------- C06

pub fn c06_pool(tier: &str) -> (Vec<Term>, Vec<Term>) {
  use crate::term::Repl;
  let thorough = tier == "thorough";
  let kinds = [None, Some(K_A), Some(K_B)];
  let mut pool: Vec<Term> = Vec::new();
  for t in ["", "a", "\n", "a\nb"] {
    pool.push(Term::raw(t));
    pool.push(Term::orig(t, &trees::file_for(t, trees::TEXTS_FULL)));
  }
  pool.push(Term::orig("ab\ncd", "s0")); // shares the name (and content) of the mapped leaves' first source
  pool.extend(trees::sms_leaves(if thorough { &["ab\n", "a\nb", "a;b\nc"] } else { &["ab\n", "a\nb"] }, if thorough { 3 } else { 2 }, &kinds));
  pool.extend(trees::script_leaves(&["a\nb", "ab"], if thorough { 3 } else { 2 }, &kinds, true));
  pool.extend(trees::script_leaves(&["a\nb"], 2, &kinds, false));
  // one with sourceRoot
  if let Some(Term::Sms(s)) = pool.iter().find(|t| matches!(t, Term::Sms(s) if s.map.segs.len() == 2 && s.map.contents.is_some())).cloned() {
    let mut s2 = (*s).clone();
    s2.map.root = Some("r".into());
    pool.push(Term::Sms(Box::new(s2)));
  }
  // sourcesContent for SOME sources only (the table is shorter than `sources`, or has an empty entry
  // in the middle); the content-less source has a name of its own and is announced last / first
  {
    use crate::refcodec::Seg;
    for (srcs, conts) in [(["s0", "p1"], vec!["ab\ncd"]), (["p1", "s0"], vec!["", "ab\ncd"])] {
      let with = if srcs[0] == "s0" { 0 } else { 1 };
      let without = 1 - with;
      let mut m = MapSpec::new(
        vec![Seg { gl: 1, gc: 0, orig: Some((with, 1, 0, None)) }, Seg { gl: 2, gc: 0, orig: Some((without, 1, 0, None)) }, Seg { gl: 2, gc: 1, orig: Some((with, 2, 0, Some(0))) }],
        &srcs,
        None,
        &["n0"],
      );
      m.contents = Some(conts.iter().map(|c| c.to_string()).collect());
      pool.push(Term::sms("ab\nxcd", "partial.js", m));
    }
  }
  let named = trees::named_variants();
  pool.extend(named.iter().cloned());
  // one segment whose generated text repeats the recorded content exactly up to the END of the
  // original line it points to and then goes on (the last line of the content has no line break,
  // the first one has): the column advances over the matching part, up to and including its last character
  {
    use crate::refcodec::Seg;
    pool.push(Term::sms("cd.e", "tail.js", trees::map_spec(vec![Seg { gl: 1, gc: 0, orig: Some((0, 2, 0, None)) }], true)));
    pool.push(Term::sms("d.e", "tail1.js", trees::map_spec(vec![Seg { gl: 1, gc: 0, orig: Some((0, 2, 1, None)) }], true)));
    // names used in an order other than that of the table (index 1 before index 0)
    pool.push(Term::sms("ab\n", "nameorder.js", trees::map_spec(vec![Seg { gl: 1, gc: 0, orig: Some((0, 1, 0, Some(1))) }, Seg { gl: 1, gc: 1, orig: Some((0, 1, 1, Some(0))) }], true)));
    pool.push(Term::sms("ab.x\ncd", "tail2.js", trees::map_spec(vec![Seg { gl: 1, gc: 0, orig: Some((0, 1, 0, None)) }, Seg { gl: 2, gc: 0, orig: Some((0, 2, 0, None)) }], true)));
  }
  // reduced pool for triples / nesting / composite inners
  let mut small: Vec<Term> = named;
  for (i, t) in pool.iter().enumerate() {
    if i < 9 || i % 9 == 0 {
      small.push(t.clone());
    }
  }
  small.push(Term::replace(pool[12].clone(), vec![Repl::new(1, 2, "X")]));
  small.push(Term::cached(pool[14].clone()));
  // a cache whose subtree announces a content-less source before one with content (a map built
  // from the stream has to keep each content with its own file)
  {
    use crate::refcodec::Seg;
    let nc = Term::sms("ab\n", "nc.js", trees::map_spec(vec![Seg { gl: 1, gc: 0, orig: Some(K_A) }], false));
    small.push(Term::cached(Term::concat(vec![nc, Term::orig("a;b", &trees::file_for("a;b", trees::TEXTS_FULL))])));
  }
  (pool, small)
}

pub fn c06_worker(tier: &str, k: usize, n: usize, ctx: &mut Ctx) {
  let (pool, small) = c06_pool(tier);
  let mut st = Striper::new(k, n);
  let mut visit = |ctx: &mut Ctx, t: &Term| {
    crate::set_current_case(t);
    ctx.begin_case(|| serde_json::to_string(t).unwrap());
    ctx.states += 1;
    ctx.sample(30_000, 3, || sample_of(t));
    crate::c06::c06(ctx, t);
  };
  // Concat: all ordered pairs of the pool, all triples of the reduced pool, nesting
  for a in &pool {
    for b in &pool {
      if st.mine() {
        visit(ctx, &Term::concat(vec![a.clone(), b.clone()]));
      }
    }
  }
  for a in &small {
    for b in &small {
      for c in &small {
        if st.mine() {
          visit(ctx, &Term::concat(vec![a.clone(), b.clone(), c.clone()]));
        }
        if st.mine() {
          visit(ctx, &Term::concat(vec![Term::concat(vec![a.clone(), b.clone()]), c.clone()]));
        }
        if st.mine() {
          visit(ctx, &Term::Concat { children: vec![a.clone(), Term::concat(vec![b.clone(), c.clone()])], typed: true, add: true });
        }
      }
    }
  }
  // Concat with a ReplaceSource child: the parent positions the next child from the end information
  // the ReplaceSource returns. Every single replacement (pairs in thorough) over a few inner
  // sources, in front of and behind every mapped sibling of the reduced pool
  {
    let o = |t: &str| Term::orig(t, &trees::file_for(t, trees::TEXTS_FULL));
    let rinners: Vec<Term> = vec![o("a"), o("a;b"), o("a\nb"), Term::raw("a"), pool.iter().find(|t| matches!(t, Term::Sms(_))).unwrap().clone(), small[0].clone()];
    let sibs: Vec<Term> = small.iter().filter(|t| !matches!(t, Term::Raw(_) | Term::Cached(_) | Term::Replace(..))).step_by(2).cloned().collect();
    for inner in &rinners {
      let text = crate::model::model_text(inner);
      let rs = trees::ReplScope {
        names2: false,
        contents1: &["", "X", "\n", "Y\nZ"],
        contents2: &["", "X", "\n"],
        names1: false,
        enforce1: false,
        max: if tier == "thorough" { 2 } else { 1 },
        over: 2,
        text: &text,
      };
      trees::for_each_replset(&rs, &mut |set| {
        let r = Term::replace(inner.clone(), set);
        for b in &sibs {
          if st.mine() {
            visit(ctx, &Term::concat(vec![r.clone(), b.clone()]));
          }
          if st.mine() {
            visit(ctx, &Term::concat(vec![b.clone(), r.clone()]));
          }
        }
      });
    }
  }
  // Replace: every pool element and every pair of the reduced pool as inner, all replacement sets
  let mut inners: Vec<Term> = pool.clone();
  for a in &small {
    for b in &small {
      inners.push(Term::concat(vec![a.clone(), b.clone()]));
    }
  }
  for (ii, inner) in inners.iter().enumerate() {
    if inner.any(&|x| matches!(x, Term::Cached(_))) {
      continue; // replay coarsens chunks: history-dependent refinement, see DESIGN section 6
    }
    let text = crate::model::model_text(inner);
    let composite = ii >= pool.len();
    let rs = trees::ReplScope {
      names2: !composite,
      contents1: &["", "X", "\n", "Y\nZ"],
      contents2: if composite { &["", "X"] } else { &["", "X", "\n"] },
      names1: true,
      enforce1: !composite,
      max: if composite && tier != "thorough" { 1 } else { 2 },
      over: 1,
      text: &text,
    };
    trees::for_each_replset(&rs, &mut |set| {
      if st.mine() {
        visit(ctx, &Term::replace(inner.clone(), set));
      }
    });
  }
  crate::clear_current_case();
}

pub fn c06_bounds(tier: &str) -> Value {
  let (pool, small) = c06_pool(tier);
  json!({
    "engine": "E1 trees",
    "pool": pool.len(),
    "reduced_pool": small.len(),
    "concat": "all ordered pairs of the pool; all ordered triples of the reduced pool flat, nested boxed, nested typed+add",
    "replace": "inner = every pool element (all sets of <= 2 replacements, every start<=end in 0..=len+1, contents {'', X, \\n, Y\\nZ}, names, enforce) and every pair of the reduced pool (singles; pairs in thorough)",
  })
}

// ---------------------------------------------------------------- C17 (trees) / C19 (trees)

/// Combined maps with columns near u32::MAX on both sides of the composition: the resolved column
/// is the inner original column plus the offset of the outer position into the inner chunk.
/// (Kept apart from `for_each_wild_combined`, whose members are numbered for the quick-tier stride.)
pub fn for_each_wild_combined_huge_columns(st: &mut Striper, visit: &mut dyn FnMut(&Term)) {
  let gen = "ab\nc";
  let original = "xy\nz";
  for (ocol, icol) in [(1u32, u32::MAX), (u32::MAX, 2), (u32::MAX, u32::MAX), (u32::MAX - 1, 1), (1 << 31, 1 << 31), (u32::MAX, 0)] {
    for igc in [0u32, 1] {
      for opt in 0..4u8 {
        if !st.mine() {
          continue;
        }
        let mut om = MapSpec::new(vec![Seg { gl: 1, gc: 0, orig: Some((0, 1, ocol, None)) }], &["inner.js", "o1"], None, &["ab", "zz"]);
        om.contents = Some(vec![original.to_string(), "other".into()]);
        let im = MapSpec::new(vec![Seg { gl: 1, gc: igc, orig: Some((0, 1, icol, Some(0))) }], &["x0", "x1"], if opt & 1 == 0 { None } else { Some(&["ab\ncd", "q"]) }, &["in0"]);
        let t = Term::Sms(Box::new(SmsSpec {
          value: gen.to_string(),
          name: "inner.js".into(),
          map: om,
          original_source: Some(original.to_string()),
          inner: Some(im),
          remove: opt & 2 != 0,
        }));
        visit(&t);
      }
    }
  }
}

/// SourceMapSource with inner map where segments, source and name indices point outside text or tables.
pub fn for_each_wild_combined(st: &mut Striper, visit: &mut dyn FnMut(&Term)) {
  use crate::term::O4;
  let gen = "ab\nc";
  let original = "xy\nz";
  let (gpos, _) = crate::model::positions(gen);
  let mut opos = gpos.clone();
  opos.push((3, 0)); // beyond the text
  let outer_kinds: Vec<Option<O4>> = vec![
    None,
    Some((0, 0, 0, None)),       // inner line 0
    Some((0, 9, 9, None)),       // beyond the inner text
    Some((0, 1, 0, Some(7))),    // name index outside the table
    Some((5, 1, 0, None)),       // source index outside the table
    Some((0, 1, 1, Some(0))),
    Some((1, 0, 0, Some(1))),    // other source, line 0
  ];
  let inner_kinds: Vec<Option<O4>> = vec![
    None,
    Some((0, 0, 0, None)),       // original line 0 (with recorded content)
    Some((9, 1, 0, None)),       // source index outside the table
    Some((0, 1, 0, Some(9))),    // name index outside the table
    Some((0, 7, 7, Some(0))),    // beyond the recorded content
    Some((1, 1, 0, None)),
  ];
  // indices FAR outside the tables: a request for memory sized by such an index is caught by the
  // allocation oracle (one or two such segments per map are enough)
  {
    let huge: Vec<Option<O4>> = vec![Some((3_000_000, 1, 0, None)), Some((0, 1, 0, Some(3_000_000))), Some((3_000_000, 0, 3_000_000, Some(3_000_000)))];
    let base_outer = vec![Seg { gl: 1, gc: 0, orig: Some((0, 1, 0, Some(0))) }, Seg { gl: 2, gc: 0, orig: Some((0, 2, 0, None)) }];
    let base_inner = vec![Seg { gl: 1, gc: 0, orig: Some((0, 1, 0, None)) }];
    for h in &huge {
      for variant in 0..4u8 {
        if !st.mine() {
          continue;
        }
        // the huge index in the outer map / in the inner map, on a position that is looked up
        let (osegs, isegs) = match variant {
          0 => (vec![Seg { gl: 1, gc: 0, orig: *h }, base_outer[1].clone()], base_inner.clone()),
          1 => (base_outer.clone(), vec![Seg { gl: 1, gc: 0, orig: *h }]),
          2 => (base_outer.clone(), vec![base_inner[0].clone(), Seg { gl: 2, gc: 0, orig: *h }]),
          _ => (vec![base_outer[0].clone(), Seg { gl: 1, gc: 1, orig: *h }], vec![Seg { gl: 1, gc: 0, orig: *h }]),
        };
        for opt in 0..4u8 {
          let mut om = MapSpec::new(osegs.clone(), &["inner.js", "o1"], None, &["ab", "zz"]);
          om.contents = Some(vec![original.to_string(), "other".into()]);
          let im = MapSpec::new(isegs.clone(), &["x0", "x1"], if opt & 1 == 0 { None } else { Some(&["ab\ncd", "q"]) }, &["in0"]);
          let t = Term::Sms(Box::new(SmsSpec {
            value: gen.to_string(),
            name: "inner.js".into(),
            map: om,
            original_source: Some(original.to_string()),
            inner: Some(im),
            remove: opt & 2 != 0,
          }));
          visit(&t);
        }
      }
    }
  }
  // every original LINE an outer segment can name, from 0 to three past the last line of the inner
  // source (the per-line tables have one entry more than the text has lines), for inner texts
  // with and without trailing line break and for empty ones
  for orig_text in ["xy\nz", "xy\nz\n", "", "\n", "q"] {
    let nlines = orig_text.matches('\n').count() as u32 + 1;
    for ol in 0..=nlines + 3 {
      for oc in [0u32, 1, 9] {
        for second in [None, Some((0u32, ol, oc + 1, Some(0u32))), Some((0, ol + 1, 0, None))] {
          if !st.mine() {
            continue;
          }
          let mut osegs = vec![Seg { gl: 1, gc: 0, orig: Some((0, ol, oc, None)) }];
          if let Some(o) = second {
            osegs.push(Seg { gl: 1, gc: 1, orig: Some(o) });
          }
          let inner_variants: Vec<Vec<Seg>> = vec![
            vec![],
            vec![Seg { gl: 1, gc: 0, orig: Some((0, 1, 0, None)) }],
            vec![Seg { gl: nlines, gc: 0, orig: Some((0, 1, 0, Some(0))) }],
            vec![Seg { gl: 1, gc: 0, orig: Some((0, 1, 0, None)) }, Seg { gl: nlines + 1, gc: 0, orig: Some((1, 2, 0, None)) }],
          ];
          for isegs in inner_variants {
            for opt in 0..4u8 {
              let mut om = MapSpec::new(osegs.clone(), &["inner.js", "o1"], None, &["ab", "zz"]);
              om.contents = Some(vec![orig_text.to_string(), "other".into()]);
              let im = MapSpec::new(isegs.clone(), &["x0", "x1"], if opt & 1 == 0 { None } else { Some(&["ab\ncd", "q"]) }, &["in0"]);
              let t = Term::Sms(Box::new(SmsSpec {
                value: gen.to_string(),
                name: "inner.js".into(),
                map: om,
                original_source: (opt & 2 != 0).then(|| orig_text.to_string()),
                inner: Some(im),
                remove: ol % 2 == 0,
              }));
              visit(&t);
            }
          }
        }
      }
    }
  }
  let outer_lists = trees::seg_lists(&opos, &outer_kinds, 2);
  let (ipos0, iend) = crate::model::positions(original);
  let mut ipos = ipos0.clone();
  ipos.push(iend);
  ipos.push((5, 3));
  let inner_lists = trees::seg_lists(&ipos, &inner_kinds, 2);
  for osegs in &outer_lists {
    if !st.mine() {
      continue;
    }
    for isegs in &inner_lists {
      for opt in 0..8u8 {
        let given = opt & 1 != 0;
        let outer_has_content = opt & 2 != 0;
        let remove = opt & 4 != 0;
        let mut om = MapSpec::new(osegs.clone(), &["inner.js", "o1"], None, &["ab", "zz"]);
        if outer_has_content {
          om.contents = Some(vec![original.to_string(), "other".into()]);
        }
        let im = MapSpec::new(isegs.clone(), &["x0", "x1"], if opt % 3 == 0 { None } else { Some(&["ab\ncd", "q"]) }, &["in0"]);
        let t = Term::Sms(Box::new(SmsSpec {
          value: gen.to_string(),
          name: "inner.js".into(),
          map: om,
          original_source: given.then(|| original.to_string()),
          inner: Some(im),
          remove,
        }));
        visit(&t);
      }
    }
  }
}

/// SourceMapSource leaves whose (sorted) segments are placed on a grid that extends beyond the
/// text: every line up to two past the last, columns {0, 1, beyond the line}; original locations
/// inside and outside the tables; plus raw mappings whose running values go negative (they decode
/// by wrapping to huge indices).
pub fn for_each_wild_map_leaf(tier: &str, st: &mut Striper, visit: &mut dyn FnMut(&Term)) {
  use crate::term::O4;
  let kinds: Vec<Option<O4>> = vec![None, Some(K_A), Some((5, 9, 9, Some(7))), Some((0, 0, 0, None)), Some(K_B)];
  let max = if tier == "thorough" { 3 } else { 2 };
  for text in ["", "a", "a\n", "\n", "ab\ncd", "é\n", "𝒳a\n"] {
    let nlines = text.matches('\n').count() as u32 + 1;
    let mut grid: Vec<(u32, u32)> = Vec::new();
    for l in 1..=nlines + 2 {
      for c in [0u32, 1, 4] {
        grid.push((l, c));
      }
    }
    for segs in trees::seg_lists(&grid, &kinds, max.min(if text.len() > 3 { 2 } else { 3 })) {
      if !st.mine() {
        continue;
      }
      let t = Term::Sms(Box::new(SmsSpec {
        value: text.to_string(),
        name: "wild.js".into(),
        map: trees::map_spec(segs, true),
        original_source: None,
        inner: None,
        remove: false,
      }));
      visit(&t);
    }
  }
  for raw in ["AAFA;AAAA", "DAAA", "ADAA", "AAAD", "AAAAD", "AADA,CADA", "AAAA;AAFA;AACA", "C;D", "AAAA,DAAA"] {
    for text in ["a\nb\n", "ab"] {
      if !st.mine() {
        continue;
      }
      let mut m = MapSpec::new(vec![], &["s0"], Some(&["ab\ncd"]), &["n0"]);
      m.raw_mappings = Some(raw.to_string());
      visit(&Term::sms(text, "rawneg.js", m));
    }
  }
}

/// a wild leaf alone and in the three contexts that consume its stream differently
pub fn wild_contexts(t: &Term) -> [Term; 4] {
  [
    t.clone(),
    {
      // replacement positions stay on char boundaries
      let text = crate::model::model_text(t);
      let end = text.chars().next().map(|c| c.len_utf8()).unwrap_or(1) as u32;
      Term::replace(t.clone(), vec![crate::term::Repl::new(0, end, "X").named("n")])
    },
    Term::cached(t.clone()),
    Term::concat(vec![Term::orig("q\n", "q.js"), t.clone(), Term::raw("z")]),
  ]
}

/// Sorted maps with a segment FAR beyond its line, under every pair of replacements, inside a
/// ConcatSource / beneath a second ReplaceSource (see the comment in the body).
pub fn for_each_far_column_tree(tier: &str, st: &mut Striper, visit: &mut dyn FnMut(&Term)) {
  // sorted maps with a segment FAR beyond its line (a few columns, 2^31, u32::MAX - 1, u32::MAX),
  // optionally followed by a segment on the next line, under every pair of replacements (nested,
  // overlapping, with line breaks in the content) - the columns a ReplaceSource reports and returns
  // are computed from the inner chunk's column, and a parent ConcatSource adds to what is returned
  {
    use crate::refcodec::Seg;
    use crate::term::Repl;
    let thorough = tier == "thorough";
    let cols: &[u32] = &[3, 7, 18, 1 << 31, u32::MAX - 1, u32::MAX];
    let kinds = [None, Some(K_A)];
    let contents: &[&str] = if thorough { &["", "XY", "\nZ", "Y\nZ"] } else { &["", "\nZ", "Y\nZ"] };
    let texts: &[&str] = if thorough { &["abcdef", "aa\n", "ab\ncd"] } else { &["abcdef", "aa\n"] };
    for &text in texts {
      let len = text.len() as u32;
      let mut ranges: Vec<(u32, u32)> = Vec::new();
      for s in 0..=len + 1 {
        for e in s..=len + 1 {
          ranges.push((s, e));
        }
      }
      for &c in cols {
        for kind in kinds {
          for shape in 0..3 {
            // 0: the far segment alone; 1: followed by a segment on line 2; 2: preceded by one at column 0
            let mut segs = vec![Seg { gl: 1, gc: c, orig: kind }];
            if shape == 1 {
              segs.push(Seg { gl: 2, gc: 0, orig: Some(K_A) });
            }
            if shape == 2 {
              segs.insert(0, Seg { gl: 1, gc: 0, orig: Some(K_A) });
            }
            let leaf = Term::sms(text, "far.js", trees::map_spec(segs, true));
            for &(s1, e1) in &ranges {
              for &(s2, e2) in &ranges {
                if !st.mine() {
                  continue;
                }
                for c1 in contents {
                  for c2 in contents {
                    let inner = Term::replace(leaf.clone(), vec![Repl::new(s1, e1, c1), Repl::new(s2, e2, c2)]);
                    let mut ws = vec![Term::concat(vec![inner.clone(), Term::raw("0123456789abcdef")])];
                    // a second ReplaceSource on top (quick: over the 3-byte text only)
                    if thorough || len <= 3 {
                      for (s3, e3, c3) in [(0u32, 1u32, ""), (1, 3, ""), (0, 1, "X"), (1, 1, "X"), (2, 4, "")] {
                        ws.push(Term::replace(inner.clone(), vec![Repl::new(s3, e3, c3)]));
                      }
                    }
                    for w in ws {
                      visit(&w);
                    }
                  }
                }
              }
            }
          }
        }
      }
    }
  }
}

/// Replacement positions FAR beyond the text (legal, clamped): every pair of ranges whose ends come
/// from the char boundaries of the text plus len+1, 2^31, u32::MAX-1, u32::MAX, over mapped, raw and
/// multi-byte leaves, alone / before a sibling / below a second ReplaceSource / cached. The
/// streaming code computes "bytes still to skip" from the replacement's end.
pub fn for_each_far_replacement_tree(tier: &str, st: &mut Striper, visit: &mut dyn FnMut(&Term)) {
  use crate::refcodec::Seg;
  use crate::term::Repl;
  let thorough = tier == "thorough";
  let named = Term::sms("ab\ncd", "farpos.js", trees::map_spec(vec![Seg { gl: 1, gc: 0, orig: Some(K_B) }, Seg { gl: 2, gc: 1, orig: Some(K_A) }], true));
  let leaves = [Term::orig("ab\ncd", "farpos-o.js"), named, Term::raw("ab\ncd"), Term::orig("é;b\n", "farpos-mb.js")];
  let contents: &[&str] = if thorough { &["X", "", "\nZ"] } else { &["X", "\nZ"] };
  for leaf in &leaves {
    let text = crate::model::model_text(leaf);
    let len = text.len() as u32;
    let mut ladder: Vec<u32> = (0..=len).filter(|p| text.is_char_boundary(*p as usize)).collect();
    ladder.extend([len + 1, 1 << 31, u32::MAX - 1, u32::MAX]);
    let mut ranges: Vec<(u32, u32)> = Vec::new();
    for (i, a) in ladder.iter().enumerate() {
      for b in &ladder[i..] {
        ranges.push((*a, *b));
      }
    }
    for &(s1, e1) in &ranges {
      for &(s2, e2) in &ranges {
        if !st.mine() {
          continue;
        }
        // at least one of the four positions is far
        if [s1, e1, s2, e2].iter().all(|p| *p <= len + 1) {
          continue;
        }
        for c1 in contents {
          for c2 in ["", "Y"] {
            let inner = Term::replace(leaf.clone(), vec![Repl::new(s1, e1, c1), Repl::new(s2, e2, c2)]);
            visit(&inner);
            visit(&Term::concat(vec![inner.clone(), Term::orig("q;r", "farpos-sib.js")]));
            // (the outer position stays on a char boundary of the inner result)
            let first = crate::model::model_text(&inner).chars().next().map(|c| c.len_utf8()).unwrap_or(1) as u32;
            visit(&Term::replace(inner.clone(), vec![Repl::new(0, first, "W")]));
            if thorough {
              visit(&Term::cached(inner.clone()));
            }
          }
        }
      }
    }
  }
}

pub fn c17_tree_worker(tier: &str, k: usize, n: usize, ctx: &mut Ctx) {
  {
    let mut st = Striper::new(k, n);
    for_each_wild_map_leaf(tier, &mut st, &mut |t| {
      for w in wild_contexts(t) {
        crate::set_current_case(&w);
        ctx.begin_case(|| serde_json::to_string(&w).unwrap());
        ctx.states += 1;
        tc::all_methods_return(ctx, &w);
        if matches!(w, Term::Cached(_)) {
          tc::cached_replay_twice(ctx, &w);
        }
      }
    });
    crate::clear_current_case();
  }
  // every mappings string of the C12 grammar whose running values go NEGATIVE (outside C12's domain:
  // the decoder wraps them to huge indices) attached to a SourceMapSource and consumed by composites
  {
    let mut st = Striper::new(k, n);
    crate::codec::for_each_grammar_string(false, &mut |raw| {
      if !matches!(crate::refcodec::decode(raw), Err(crate::refcodec::DecodeError::Negative)) {
        return;
      }
      if !st.mine() {
        return;
      }
      let mut m = MapSpec::new(vec![], &["s0", "s1"], Some(&["ab\ncd", "x"]), &["n0"]);
      m.raw_mappings = Some(raw.to_string());
      let leaf = Term::sms("ab\ncd\n", "neg.js", m);
      let mut ws = vec![
        Term::replace(leaf.clone(), vec![crate::term::Repl::new(1, 4, "X\n")]),
        Term::concat(vec![Term::orig("q", "q.js"), Term::cached(leaf.clone())]),
      ];
      if tier == "thorough" {
        for r in [crate::term::Repl::new(0, 3, ""), crate::term::Repl::new(2, 2, "Y\nZ"), crate::term::Repl::new(3, 9, "w")] {
          ws.push(Term::concat(vec![Term::replace(leaf.clone(), vec![r.clone()]), Term::orig("q", "q.js")]));
          ws.push(Term::replace(Term::concat(vec![Term::orig("q\n", "q.js"), leaf.clone()]), vec![r]));
        }
      }
      for w in ws {
        crate::set_current_case(&w);
        ctx.states += 1;
        ctx.evaluations += 1;
        ctx.transitions += 4;
        let src = w.build();
        for columns in [true, false] {
          if let Err(e) = crate::observe::map_of(src.as_ref(), columns) {
            tc::report_panic(ctx, &w, &format!("map({columns})"), &e);
          }
          if let Err(e) = crate::observe::stream(src.as_ref(), columns, false) {
            tc::report_panic(ctx, &w, &format!("stream({columns})"), &e);
          }
        }
      }
    });
    crate::clear_current_case();
  }
  // curated maps whose running values go negative in each field / on each line, under every single
  // replacement and in the contexts that do arithmetic on generated positions
  {
    let mut st = Striper::new(k, n);
    let raws = [
      "DAAA", "ADAA", "AADA", "AAAD", "AAAAD", "D", "AAAA,DAAA", "AAAA;DAAA", "CAAA,FAAA", ";DAAA", "AAAA;ADAA", "AAAA,AAFA",
      "IAAA,DAAA,DAAA", "DAAA;DAAA;DAAA", "AAAA,D", "EAAA,H,CAAA", "AAAA;;DAAA,CAAA", "FAAA", "AAAF", "AAFA;AAAA;AAFA",
    ];
    let text = "ab\ncd\n";
    let (pos, _) = crate::model::positions(text);
    for raw in raws {
      let mut m = MapSpec::new(vec![], &["s0", "s1"], Some(&["ab\ncd", "x"]), &["n0"]);
      m.raw_mappings = Some(raw.to_string());
      let leaf = Term::sms(text, "neg.js", m);
      for s in 0..=pos.len() as u32 + 1 {
        for e in s..=pos.len() as u32 + 1 {
          if !st.mine() {
            continue;
          }
          for content in ["", "X", "\n", "Y\nZ"] {
            let r = vec![crate::term::Repl::new(s, e, content)];
            for w in [
              Term::replace(leaf.clone(), r.clone()),
              Term::concat(vec![Term::replace(leaf.clone(), r.clone()), Term::orig("q", "q.js")]),
              Term::replace(Term::concat(vec![Term::orig("q", "q.js"), leaf.clone()]), r.clone()),
              Term::concat(vec![Term::orig("q", "q.js"), Term::replace(Term::cached(leaf.clone()), r.clone()), Term::raw("z")]),
            ] {
              crate::set_current_case(&w);
              ctx.states += 1;
              tc::all_methods_return(ctx, &w);
            }
          }
        }
      }
    }
    crate::clear_current_case();
  }
  {
    let mut st = Striper::new(k, n);
    for_each_far_column_tree(tier, &mut st, &mut |w| {
      crate::set_current_case(w);
      ctx.states += 1;
      ctx.count("far_column_family_trees");
      tc::all_methods_return(ctx, w);
    });
    crate::clear_current_case();
  }
  {
    let mut st = Striper::new(k, n);
    for_each_far_replacement_tree(tier, &mut st, &mut |w| {
      crate::set_current_case(w);
      ctx.states += 1;
      ctx.count("far_replacement_family_trees");
      tc::all_methods_return(ctx, w);
    });
    crate::clear_current_case();
  }
  let all = |_: &Term| true;
  sweep(ctx, &wild_scope(tier), k, n, &all, &mut |c, t| tc::all_methods_return(c, t));
  {
    let mut st = Striper::new(k, n);
    for_each_wild_combined_huge_columns(&mut st, &mut |t| {
      crate::set_current_case(t);
      ctx.states += 1;
      ctx.count("wild_combined_huge_column_trees");
      tc::all_methods_return(ctx, t);
      let w2 = Term::concat(vec![Term::orig("q\n", "q.js"), t.clone()]);
      crate::set_current_case(&w2);
      tc::all_methods_return(ctx, &w2);
    });
    crate::clear_current_case();
  }
  let mut st = Striper::new(k, n);
  let mut wc = 0u64;
  for_each_wild_combined(&mut st, &mut |t| {
    wc += 1;
    // quick tier: every other member of the big product (the huge-index members come first and are always run)
    if tier != "thorough" && wc > 48 && wc % 3 == 0 {
      return;
    }
    crate::set_current_case(t);
    ctx.begin_case(|| serde_json::to_string(t).unwrap());
    ctx.states += 1;
    ctx.sample(100_000, 2, || sample_of(t));
    tc::all_methods_return(ctx, t);
    // and wrapped the way rspack uses it
    let w = Term::replace(Term::cached(t.clone()), vec![crate::term::Repl::new(1, 2, "X").named("n")]);
    crate::set_current_case(&w);
    tc::all_methods_return(ctx, &w);
    let w2 = Term::concat(vec![Term::orig("q\n", "q.js"), t.clone()]);
    crate::set_current_case(&w2);
    tc::all_methods_return(ctx, &w2);
  });
  crate::clear_current_case();
  // the general ASCII scope as a "returns normally" sweep as well (pairs of replacements in the thorough tier)
  let mut sc = general_scope("quick");
  if tier == "thorough" {
    sc.repl_max_leaf = 2;
  } else {
    sc.repl_max_leaf = 1;
    sc.repl_max_composite = 1;
  }
  sweep(ctx, &sc, k, n, &all, &mut |c, t| tc::all_methods_return(c, t));
}
