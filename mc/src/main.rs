//! mc — bounded exhaustive exploration of rspack-sources against /verif/properties.jsonl
mod c06;
mod c08;
mod c09;
mod c19;
mod codec;
mod engine;
mod findings;
mod hist;
mod jsonmc;
mod model;
mod observe;
mod pairs;
mod props;
mod refcodec;
mod rope_mc;
mod sched;
mod term;
mod tree_checks;
mod trees;

use std::{cell::Cell, time::Instant};

use engine::Ctx;
use serde_json::{json, Value};

/// Counting allocator: the largest single allocation since the last reset. A request whose size is
/// proportional to an index taken from the input (C17: "indices outside the tables") shows up here
/// long before it exhausts memory.
pub struct CountingAlloc;
pub static MAX_ALLOC: std::sync::atomic::AtomicUsize = std::sync::atomic::AtomicUsize::new(0);
#[allow(unsafe_code)]
unsafe impl std::alloc::GlobalAlloc for CountingAlloc {
  unsafe fn alloc(&self, l: std::alloc::Layout) -> *mut u8 {
    MAX_ALLOC.fetch_max(l.size(), std::sync::atomic::Ordering::Relaxed);
    std::alloc::System.alloc(l)
  }
  unsafe fn dealloc(&self, p: *mut u8, l: std::alloc::Layout) {
    std::alloc::System.dealloc(p, l)
  }
  unsafe fn realloc(&self, p: *mut u8, l: std::alloc::Layout, n: usize) -> *mut u8 {
    MAX_ALLOC.fetch_max(n, std::sync::atomic::Ordering::Relaxed);
    std::alloc::System.realloc(p, l, n)
  }
  unsafe fn alloc_zeroed(&self, l: std::alloc::Layout) -> *mut u8 {
    MAX_ALLOC.fetch_max(l.size(), std::sync::atomic::Ordering::Relaxed);
    std::alloc::System.alloc_zeroed(l)
  }
}
#[global_allocator]
static GLOBAL: CountingAlloc = CountingAlloc;

pub fn reset_max_alloc() {
  MAX_ALLOC.store(0, std::sync::atomic::Ordering::Relaxed);
}
pub fn max_alloc() -> usize {
  MAX_ALLOC.load(std::sync::atomic::Ordering::Relaxed)
}

thread_local! {
  static CURRENT_CASE: Cell<*const term::Term> = const { Cell::new(std::ptr::null()) };
  static CURRENT_DESC: std::cell::RefCell<Option<String>> = const { std::cell::RefCell::new(None) };
}

pub fn set_current_case(t: &term::Term) {
  CURRENT_CASE.with(|c| c.set(t as *const _));
}
pub fn clear_current_case() {
  CURRENT_CASE.with(|c| c.set(std::ptr::null()));
}
pub fn set_current_desc(s: String) {
  CURRENT_DESC.with(|c| *c.borrow_mut() = Some(s));
}

fn install_panic_hook() {
  std::panic::set_hook(Box::new(|info| {
    let loc = info.location().map(|l| format!("{}:{}", l.file(), l.line())).unwrap_or_default();
    observe::LAST_PANIC.with(|l| *l.borrow_mut() = loc.clone());
    let msg = info.payload().downcast_ref::<&str>().map(|s| s.to_string()).or_else(|| info.payload().downcast_ref::<String>().cloned()).unwrap_or_default();
    // (PanicHookInfo::can_unwind is unstable on 1.83: recognise the non-unwinding panics by message)
    if msg.contains("unsafe precondition") || msg.contains("cannot unwind") || msg.contains("misaligned pointer") {
      // the process is about to abort: say which case we were in
      eprintln!("NON-UNWINDING PANIC at {loc}: {msg}");
      let p = CURRENT_CASE.with(|c| c.get());
      if !p.is_null() {
        // SAFETY: set_current_case is given a reference that outlives the check call
        let t = unsafe { &*p };
        eprintln!("CRASH-CASE {}", serde_json::to_string(t).unwrap_or_default());
      } else if let Some(d) = CURRENT_DESC.with(|c| c.borrow().clone()) {
        eprintln!("CRASH-CASE {d}");
      }
    } else if std::env::var_os("VERIF_SHOW_PANICS").is_some() {
      eprintln!("panic at {loc}");
    }
  }));
}

struct Meta {
  level: &'static str,
  rule: &'static str,
  assumptions: &'static [&'static str],
  workers: usize,
}

fn meta(prop: &str) -> Meta {
  let tree_assume: &'static [&'static str] = &[
    "scope is bounded: texts <= ~10 chars, <= 3 replacements, depth <= 3 (see coverage.bounds)",
    "reference models in mc/src/model.rs, refcodec.rs are the specification as read in DESIGN.md section 6",
    "positions are compared on ASCII text only",
  ];
  match prop {
    "C01" => Meta { level: "model_checking", rule: "one case per distinct construction program (term); non-trivial = the outside stream has >= 2 chunks for some column setting", assumptions: tree_assume, workers: 16 },
    "C02" => Meta { level: "model_checking", rule: "one case per distinct term; non-trivial = output has >= 2 lines and >= 2 chunks", assumptions: tree_assume, workers: 16 },
    "C03" => Meta { level: "model_checking", rule: "one case per distinct term; non-trivial = stream has >= 2 chunks and >= 1 mapped non-empty chunk", assumptions: tree_assume, workers: 16 },
    "C04" => Meta { level: "model_checking", rule: "one case per distinct term over {Raw*,Orig,Concat,Replace,Cached}; non-trivial = >= 1 surviving original character and >= 3 output characters", assumptions: tree_assume, workers: 16 },
    "C07" => Meta { level: "model_checking", rule: "view cases: one per distinct term (non-trivial = composite or binary leaf); fault cases: one per (term, failing writer k / short-write size / interrupt position)", assumptions: tree_assume, workers: 16 },
    "C13" => Meta { level: "model_checking", rule: "one case per (law, base term, variant term); states = pool elements + ordered triples; non-trivial = the base has at least one mapped position", assumptions: tree_assume, workers: 16 },
    "C06" => Meta { level: "model_checking", rule: "one case per distinct Concat/Replace term; non-trivial = >= 2 children with a mapped position (Concat) / >= 2 inner segments with a mapped survivor (Replace)", assumptions: tree_assume, workers: 16 },
    "C08" => Meta { level: "model_checking", rule: "one case per (text, map) pair; non-trivial = map has >= 2 segments and attributes >= 1 character", assumptions: tree_assume, workers: 16 },
    "C09" => Meta { level: "model_checking", rule: "one case per (generated text, outer map, original text, inner map, options); non-trivial = at least one position is attributed through the inner map", assumptions: tree_assume, workers: 16 },
    "C05" => Meta { level: "model_checking", rule: "one state per call history (node of the prefix tree, depth <= bound); an evaluation is a history ending in an observer; non-trivial = >= 2 mutators and >= 3 calls", assumptions: &["bounded depth and alphabets (coverage.bounds)", "reference = text model of the statement + a never-observed twin built from the same mutator calls", "sorted-flag abstraction validated against ReplaceSource::verif_sorted_state after every observer"], workers: 16 },
    "C10" => Meta { level: "model_checking", rule: "one state per call history over (original, clone) handles; evaluation = history ending in a call; non-trivial = >= 2 cache-relevant calls (map/stream/hash)", assumptions: &["bounded depth, alphabet and pool of wrapped trees (coverage.bounds)", "reference = fresh never-cached build of the wrapped tree; wrapped trees contain no CachedSource beneath a ReplaceSource", "cache contents read through the guarded hook CachedSource::verif_cache_snapshot"], workers: 16 },
    "C14" => Meta { level: "model_checking", rule: "states = pool trees + their single-edit neighbours; evaluation = (pair, left observer prefix, right observer prefix); non-trivial = at least two observer calls before comparing", assumptions: &["bounded pool, prefixes of <= 2 observer calls (twins) / <= 1 (neighbours)", "observer answers compared as text, bytes, size and per-position attribution", "trees with a CachedSource beneath a ReplaceSource are excluded (history-dependent chunking, DESIGN section 6)"], workers: 16 },
    "C20" => Meta { level: "model_checking", rule: "states = pool trees + edited trees; evaluation = pair (base, single edit) or (base, independent tree) or (tree, observer prefix); non-trivial = the pair differs in source(), buffer() or map()", assumptions: &["bounded pool; every single edit of the listed kinds at every node", "64-bit collisions are counted as violations (none expected at this scale)", "SourceMapSource name and debugId edits are excluded (statement / reading 6.3)"], workers: 16 },
    "C16" => Meta { level: "model_checking", rule: "states = distinct rope piece structures reached by BFS; evaluations = states (all unary observers, every slice range) + ordered pairs (binary observers); non-trivial = multi-piece rope of >= 2 bytes", assumptions: &["bounded piece alphabet and program depth (coverage.bounds)", "reference model: the flat String; lines() = split after every line break plus a final empty line when the text is empty or ends in a line break", "Hash of Rope is not part of the statement and is not compared"], workers: 16 },
    "C12" => Meta { level: "model_checking", rule: "states = mapping sequences / delta pairs / grammar strings enumerated; non-trivial = sequence of >= 2 segments with a mapped one, or string decoding to >= 2 segments", assumptions: &["bounded: <= 2 segments over the full boundary alphabet, 3-4 over a reduced one; generated lines stay small (one ';' per line)", "reference codec mc/src/refcodec.rs written from the source-map v3 description", "values < 2^31 (u32 fields of Mapping)"], workers: 16 },
    "C15" => Meta { level: "model_checking", rule: "states = SourceMap values and JSON documents enumerated; non-trivial = value with >= 2 table entries / any document", assumptions: &["string alphabet of 12 strings covering quotes, backslash, control characters, U+2028/9, astral", "independent parser: serde_json"], workers: 16 },
    "C17" => Meta { level: "model_checking", rule: "states = inputs enumerated (decoder strings, byte strings, edited documents, wild source trees), each run in the overflow-checked and in the release profile; non-trivial = input that parses / decodes to >= 2 segments / composite tree", assumptions: &["bounded lengths (coverage.bounds)", "hang detection: per-worker wall limit", "dependencies (simd-json) are part of the subject"], workers: 16 },
    "C18" => Meta { level: "model_checking", rule: "states = scheduling decision nodes visited; evaluations = complete schedules executed (each compared with the single-threaded answers); non-trivial = schedules with >= 1 preemption", assumptions: &["interleavings at the granularity of the guarded hook points placed before every shared-state access of ReplaceSource, CachedSource and the raw sources, and in callbacks of a user-defined child", "sequential consistency (the code uses SeqCst atomics and locks only)", "preemption bound and programs listed in coverage.bounds / coverage.notes"], workers: 16 },
    "C19" => Meta { level: "model_checking", rule: "states/evaluations = the rope states, trees and schedules of the underlying engines, re-run with the precondition assertions armed; non-trivial as in those engines", assumptions: &["a precondition assertion sits immediately before each of the 14 unsafe operations (feature verif_hooks); every site must be reached at least once or the run is a machinery failure", "std ub_checks (debug-assertions) abort on out-of-contract unchecked indexing: second oracle", "the lifetime-extended cached map is sound iff cache entries are write-once: monitored over all C18 schedules and C10 histories", "no address sanitizer run (needs a nightly -Z flag and a rebuilt std; the installed nightly has rust-src but the 1.83 dependency cache does not build there)"], workers: 16 },
    "C11" => Meta { level: "model_checking", rule: "one case per distinct term; non-trivial = some map() has >= 2 segments", assumptions: tree_assume, workers: 16 },
    _ => panic!("unknown property {prop}"),
  }
}

fn run_worker(prop: &str, tier: &str, k: usize, n: usize, ctx: &mut Ctx) {
  match prop {
    "C01" | "C02" | "C03" | "C04" | "C07" | "C11" => props::tree_worker(prop, tier, k, n, ctx),
    "C13" => props::c13_worker(tier, k, n, ctx),
    "C06" => props::c06_worker(tier, k, n, ctx),
    "C08" => c08::worker(tier, k, n, ctx),
    "C09" => {
      c09::worker(tier, k, n, ctx);
      c09::dense_worker(tier, k, n, ctx);
      c09::subset_worker(tier, k, n, ctx);
      c09::multibyte_names_worker(tier, k, n, ctx);
      c09::shifted_identity_worker(tier, k, n, ctx);
      c09::shared_name_text_worker(tier, k, n, ctx);
    }
    "C05" => hist::c05_worker(tier, k, n, ctx),
    "C12" => codec::c12_worker(tier, k, n, ctx),
    "C15" => jsonmc::c15_worker(tier, k, n, ctx),
    "C17" => {
      let t0 = std::time::Instant::now();
      codec::c17_decode_worker(tier, k, n, ctx);
      let t1 = std::time::Instant::now();
      jsonmc::c17_parser_worker(tier, k, n, ctx);
      let t2 = std::time::Instant::now();
      props::c17_tree_worker(tier, k, n, ctx);
      if std::env::var_os("VERIF_TIMING").is_some() {
        eprintln!("C17 worker {k}: decoder {:?} parsers {:?} trees {:?}", t1 - t0, t2 - t1, t2.elapsed());
      }
    }
    "C16" => rope_mc::worker(tier, k, n, ctx),
    "C18" => sched::worker(tier, k, n, ctx),
    "C19" => c19::worker(tier, k, n, ctx),
    "C14" => pairs::c14_worker(tier, k, n, ctx),
    "C20" => pairs::c20_worker(tier, k, n, ctx),
    "C10" => hist::c10_worker(tier, k, n, ctx),
    _ => panic!("unknown property {prop}"),
  }
}

fn bounds(prop: &str, tier: &str) -> Value {
  match prop {
    "C01" | "C02" | "C03" | "C04" | "C07" | "C11" => props::tree_bounds(prop, tier),
    "C13" => props::c13_bounds(tier),
    "C06" => props::c06_bounds(tier),
    "C08" => c08::bounds(tier),
    "C09" => c09::bounds(tier),
    "C05" => hist::c05_bounds(tier),
    "C12" => codec::c12_bounds(tier),
    "C15" => jsonmc::c15_bounds(tier),
    "C17" => json!({
      "profiles": ["checked (opt-level 2, overflow-checks, debug-assertions, std ub_checks)", "release"],
      "decoder": format!("all strings of length <= {} over {{A,C,D,g,/,9,',',';','!'}}; continuation runs of length 1..=40 in each of the 5 field positions x 4 continuation digits x 3 first digits (none, '+', '8': sign bit 0) x 10 terminators x with/without an earlier segment; huge deltas of both signs", if tier == "thorough" { 8 } else { 6 }),
      "parsers": format!("from_slice/from_reader/from_json on all byte strings of length <= {}; complete single-edit neighbourhood (every byte -> every value, deletion, truncation, adjacent swap, 7 insertions) of 12 valid documents; nesting depth up to 5000", if tier == "thorough" { 3 } else { 2 }),
      "trees": "wild scope (multi-byte text, invalid UTF-8, maps outside text/tables) through all Source methods and 4 stream modes; SourceMapSource with inner map: all <=2-segment outer x inner lists over wild kinds x 8 option sets, also beneath Cached+Replace and inside Concat",
    }),
    "C16" => rope_mc::bounds(tier),
    "C18" => sched::bounds(tier),
    "C19" => c19::bounds(tier),
    "C14" => pairs::c14_bounds(tier),
    "C20" => pairs::c20_bounds(tier),
    "C10" => hist::c10_bounds(tier),
    _ => json!({}),
  }
}

fn main() {
  install_panic_hook();
  let args: Vec<String> = std::env::args().collect();
  let cmd = args.get(1).map(|s| s.as_str()).unwrap_or("");
  match cmd {
    "check" => {
      let prop = args[2].as_str();
      let tier = args.get(3).map(|s| s.as_str()).unwrap_or("quick");
      let started = Instant::now();
      let m = meta(prop);
      let (mut total, mut errors) = engine::run_workers(prop, tier, m.workers, &[]);
      if prop == "C17" {
        // second pass in the release profile (wrapping arithmetic, no ub_checks)
        let exe = std::env::current_exe().unwrap();
        let rel = std::path::PathBuf::from(exe.to_string_lossy().replace("/checked/", "/release/"));
        if rel == exe || !rel.exists() {
          errors.push(format!("release binary not found at {}", rel.display()));
        } else {
          let (t2, e2) = engine::run_workers_with(prop, tier, m.workers, &[], rel);
          let released = t2.evaluations;
          for mut v in t2.violations.clone() {
            v.clause = format!("release:{}", v.clause);
            total.violations.push(v);
          }
          let mut t2 = t2;
          t2.violations.clear();
          total.merge(t2);
          total.add("evaluations_in_release_profile", released);
          errors.extend(e2.into_iter().map(|e| format!("release: {e}")));
        }
      }
      for n in total.notes.clone() {
        if let Some(m) = n.strip_prefix("MACHINERY: ") {
          errors.push(m.to_string());
        }
      }
      if prop == "C19" {
        for site in c19::unreached_sites(&total) {
          errors.push(format!("unsafe site never reached by this run: {site}"));
        }
      }
      if prop == "C20" {
        let digests: Vec<&String> = total.notes.iter().filter(|n| n.starts_with("pool_hash_digest=")).collect();
        if digests.len() != 1 {
          let d = format!("{digests:?}");
          total.violations.push(engine::Violation {
            clause: "hash_differs_between_processes".into(),
            sig: String::new(),
            finding_key: None,
            case: json!({"digests": d}),
            detail: format!("the worker processes computed different hash vectors for the same pool: {d}"),
            size: 0,
            count: 1,
          });
        }
      }
      let code = engine::finish(prop, tier, m.level, m.rule, m.assumptions, bounds(prop, tier), total, errors, started);
      std::process::exit(code);
    }
    "worker" => {
      let prop = args[2].as_str();
      let tier = args[3].as_str();
      let k: usize = args[4].parse().unwrap();
      let n: usize = args[5].parse().unwrap();
      let mut ctx = Ctx::default();
      ctx.trace = args.get(6).map(|s| s == "--trace").unwrap_or(false);
      run_worker(prop, tier, k, n, &mut ctx);
      println!("RESULT {}", serde_json::to_string(&ctx).unwrap());
    }
    "replay" => {
      let path = &args[2];
      let v: Value = serde_json::from_str(&std::fs::read_to_string(path).expect("read replay")).expect("parse replay");
      let prop = v["property"].as_str().unwrap().to_string();
      let mut ctx = Ctx::default();
      replay(&prop, &v["case"], &mut ctx);
      for x in &ctx.violations {
        println!("REPRODUCED clause={} {}", x.clause, x.detail);
      }
      if ctx.violations.is_empty() {
        println!("not reproduced");
      }
      std::process::exit(if ctx.violations.is_empty() { 0 } else { 1 });
    }
    _ => {
      eprintln!("usage: mc check <ID> <tier> | worker <ID> <tier> <k> <n> [--trace] | replay <file>");
      std::process::exit(2);
    }
  }
}

fn replay(prop: &str, case: &Value, ctx: &mut Ctx) {
  match prop {
    "C12" => {
      if let Ok(x) = serde_json::from_value::<Vec<refcodec::Seg>>(case["mappings"].clone()) {
        codec::check_sequence(ctx, &x);
      } else if let Some(s) = case["string"].as_str() {
        if let Ok(d) = codec::crate_decode(s) {
          println!("crate decodes {s:?} to {d:?}; reference: {:?}", refcodec::decode(s));
        }
      }
    }
    "C17" => {
      if let Some(s) = case["string"].as_str() {
        if let Err(e) = codec::crate_decode(s) {
          ctx.violation("decode_mappings_panic", String::new(), None, || case.clone(), 0, e);
        }
      } else if let Ok(t) = serde_json::from_value::<term::Term>(case.clone()) {
        tree_checks::all_methods_return(ctx, &t);
      } else if let Ok(b) = serde_json::from_value::<Vec<u8>>(case["bytes"].clone()) {
        if let Err(e) = observe::guarded(|| rspack_sources::SourceMap::from_slice(&b).is_ok()) {
          ctx.violation("parser_panic", String::new(), None, || case.clone(), 0, e);
        }
      }
    }
    "C01" | "C02" | "C03" | "C04" | "C06" | "C07" | "C11" => {
      let t: term::Term = serde_json::from_value(case.clone()).expect("case is a term");
      match prop {
        "C01" => tree_checks::c01(ctx, &t),
        "C02" => tree_checks::c02(ctx, &t),
        "C03" => tree_checks::c03(ctx, &t),
        "C04" => tree_checks::c04(ctx, &t),
        "C07" => {
          tree_checks::c07_views(ctx, &t);
          tree_checks::c07_faults(ctx, &t)
        }
        "C11" => tree_checks::c11(ctx, &t),
        "C06" => c06::c06(ctx, &t),
        _ => unreachable!(),
      }
    }
    "C08" => {
      let t: term::Term = serde_json::from_value(case.clone()).expect("case is a term");
      if let term::Term::Sms(s) = &t {
        c08::c08_case(ctx, &s.value, &s.map);
      }
    }
    "C09" => {
      let t: term::Term = serde_json::from_value(case.clone()).expect("case is a term");
      c09::c09_case(ctx, &t);
    }
    "C05" => {
      let inner: term::Term = serde_json::from_value(case["inner"].clone()).expect("inner");
      let ops: Vec<hist::RsOp> = serde_json::from_value(case["ops"].clone()).expect("ops");
      hist::c05_history(ctx, &inner, &ops, true);
    }
    "C10" => {
      let wrapped: term::Term = serde_json::from_value(case["wrapped"].clone()).expect("wrapped");
      let ops: Vec<hist::CsOp> = serde_json::from_value(case["ops"].clone()).expect("ops");
      let reference = hist::cs_reference(&wrapped);
      hist::c10_history(ctx, &wrapped, &reference, &ops, true);
    }
    "C14" => {
      let t: term::Term = serde_json::from_value(case["term"].clone()).expect("term");
      let pa: Vec<pairs::Pre> = serde_json::from_value(case["left_prefix"].clone()).unwrap_or_default();
      let pb: Vec<pairs::Pre> = serde_json::from_value(case["right_prefix"].clone()).unwrap_or_default();
      if case["kind"] == "staged" || case["kind"] == "staged_concat" {
        pairs::c14_staged(ctx, &t);
      } else if case["kind"] == "neighbours" {
        let e: term::Term = serde_json::from_value(case["edited"].clone()).expect("edited");
        pairs::c14_neighbours(ctx, &t, &e, case["edit"].as_str().unwrap_or(""), &[pa, pb]);
      } else {
        pairs::c14_tree(ctx, &t, &[pa, pb]);
      }
    }
    "C20" => {
      let t: term::Term = serde_json::from_value(case["term"].clone()).expect("term");
      if case["kind"] == "staged_concat" {
        pairs::c20_staged_concat(ctx, &t);
      } else if let Ok(e) = serde_json::from_value::<term::Term>(case["edited"].clone()) {
        pairs::c20_pair(ctx, &t, &e, case["edit"].as_str().unwrap_or(""));
      }
    }
    "C18" => sched::replay(ctx, case),
    "C19" => {
      if case.get("program").map(|p| p.is_object()).unwrap_or(false) && case.get("schedule").is_some() {
        sched::replay(ctx, case)
      } else if let Ok(t) = serde_json::from_value::<term::Term>(case.clone()) {
        tree_checks::all_methods_return(ctx, &t);
        tree_checks::cached_replay_twice(ctx, &t);
      } else {
        println!("rope program: {case}");
      }
    }
    "C13" => {
      let base: term::Term = serde_json::from_value(case["base"].clone()).expect("base");
      let variant: term::Term = serde_json::from_value(case["variant"].clone()).expect("variant");
      let law = case["law"].as_str().unwrap_or("law");
      tree_checks::c13_pair(ctx, law, &base, &variant, law.starts_with("replace_empty"));
    }
    _ => panic!("no replay for {prop}"),
  }
}
