//! Narrow classification of violations that correspond to recorded findings
//! (/verif/known_findings.json). A key is produced only for the exact call
//! site / input shape of the finding; everything else stays a violation.

use crate::term::Term;

/// KF1: `SourceMapSource::map` without inner map returns the attached map
/// verbatim, hence `Some` even when no chunk of the stream is mapped.
pub fn classify_map_presence(t: &Term, map_some: bool) -> Option<String> {
  if !map_some {
    return None;
  }
  match t.strip_transparent() {
    Term::Sms(s) if s.inner.is_none() => Some("KF1-sms-passthrough-map-some-without-mapped-chunk".to_string()),
    _ => None,
  }
}

pub fn classify_panic(_t: &Term, _msg: &str) -> Option<String> {
  None
}

pub fn classify_rope(_clause: &str) -> Option<String> {
  None
}

pub fn classify_decode_panic(_s: &str, _msg: &str) -> Option<String> {
  None
}

/// KF2: `Hash for ConcatSource` writes its children one after the other without a count or
/// terminator, and `ReplaceSource` writes its inner source last, so
/// `Concat[Replace(Concat[a], r), b]` and `Concat[Replace(Concat[a, b], r)]` feed the hasher the
/// same bytes. The key is given only to pairs produced by exactly that regrouping edit.
pub fn classify_hash_collision(kind: &str) -> Option<String> {
  let kind = kind.split('+').next().unwrap_or(kind);
  let last = kind.rsplit('.').next().unwrap_or(kind);
  if last.starts_with("move_sibling_") && last.ends_with("_into_inner_concat_of_replace") {
    Some("KF2-concat-hash-has-no-child-boundary".to_string())
  } else {
    None
  }
}
