//! Observation of real objects: chunk streams, maps, attribution per position.

use std::panic::{catch_unwind, AssertUnwindSafe};

use rspack_sources::{MapOptions, Rope, Source, SourceMap};

use crate::{
  refcodec::Seg,
  term::{apply_root, O4},
};

#[derive(Clone, Debug, PartialEq, Eq)]
pub enum Ev {
  Chunk { text: Option<String>, gl: u32, gc: u32, orig: Option<O4> },
  Source { idx: u32, name: String, content: Option<String> },
  Name { idx: u32, name: String },
}

#[derive(Clone, Debug, PartialEq, Eq)]
pub struct Stream {
  pub events: Vec<Ev>,
  pub info: (u32, u32),
}

thread_local! {
  pub static LAST_PANIC: std::cell::RefCell<String> = const { std::cell::RefCell::new(String::new()) };
}

/// Run a call into the subject; Err(message) when it panicked.
pub fn guarded<R>(f: impl FnOnce() -> R) -> Result<R, String> {
  match catch_unwind(AssertUnwindSafe(f)) {
    Ok(r) => Ok(r),
    Err(e) => {
      let msg = if let Some(s) = e.downcast_ref::<&str>() {
        s.to_string()
      } else if let Some(s) = e.downcast_ref::<String>() {
        s.clone()
      } else {
        "panic".to_string()
      };
      let loc = LAST_PANIC.with(|l| l.borrow().clone());
      Err(format!("{msg} @ {loc}"))
    }
  }
}

/// Stream as a caller would. Borrowed ropes / names / contents are kept until
/// the call has returned and only then read (C19: borrows outlive the call).
pub fn stream(src: &dyn Source, columns: bool, final_source: bool) -> Result<Stream, String> {
  guarded(|| {
    enum Raw<'a> {
      Chunk(Option<Rope<'a>>, rspack_sources::Mapping),
      Source(u32, std::borrow::Cow<'a, str>, Option<Rope<'a>>),
      Name(u32, std::borrow::Cow<'a, str>),
    }
    let raw: std::cell::RefCell<Vec<Raw>> = std::cell::RefCell::new(Vec::new());
    let opts = MapOptions::verif_new(columns, final_source);
    let info = src.stream_chunks(
      &opts,
      &mut |chunk, mapping| raw.borrow_mut().push(Raw::Chunk(chunk, mapping)),
      &mut |i, s, c| raw.borrow_mut().push(Raw::Source(i, s, c)),
      &mut |i, n| raw.borrow_mut().push(Raw::Name(i, n)),
    );
    let events = raw
      .into_inner()
      .into_iter()
      .map(|r| match r {
        Raw::Chunk(c, m) => Ev::Chunk {
          // a chunk handed to a caller is a str: it must hold valid UTF-8 (a cut inside a multi-byte
          // character by an unchecked slice shows up here even when every byte is still delivered)
          text: c.map(|r| {
            let b = r.to_bytes();
            if std::str::from_utf8(&b).is_err() {
              panic!("{} site=observer.streamed_chunk_is_valid_utf8: chunk bytes {:?}", rspack_sources::verif::UNSAFE_PRE_MARKER, &b[..b.len().min(12)]);
            }
            r.to_string()
          }),
          gl: m.generated_line,
          gc: m.generated_column,
          orig: m
            .original
            .map(|o| (o.source_index, o.original_line, o.original_column, o.name_index)),
        },
        Raw::Source(i, s, c) => Ev::Source { idx: i, name: s.into_owned(), content: c.map(|r| r.to_string()) },
        Raw::Name(i, n) => Ev::Name { idx: i, name: n.into_owned() },
      })
      .collect();
    Stream { events, info: (info.generated_line, info.generated_column) }
  })
}

/// Resolved attribution of a position.
#[derive(Clone, Debug, PartialEq, Eq, Hash, PartialOrd, Ord)]
pub struct Attr {
  pub file: String,
  pub content: Option<String>,
  pub line: u32,
  pub col: u32,
  pub name: Option<String>,
}

impl Attr {
  pub fn no_content(&self) -> (String, u32, u32, Option<String>) {
    (self.file.clone(), self.line, self.col, self.name.clone())
  }
}

#[derive(Clone, Debug)]
pub struct ChunkView {
  pub text: String,
  pub gl: u32,
  pub gc: u32,
  pub attr: Option<Attr>,
  /// index was used before being announced / never announced
  pub dangling: bool,
}

impl Stream {
  pub fn chunks(&self) -> impl Iterator<Item = (&Option<String>, u32, u32, &Option<O4>)> {
    self.events.iter().filter_map(|e| match e {
      Ev::Chunk { text, gl, gc, orig } => Some((text, *gl, *gc, orig)),
      _ => None,
    })
  }

  pub fn text(&self) -> Option<String> {
    let mut s = String::new();
    for (t, ..) in self.chunks() {
      s.push_str(t.as_ref()?);
    }
    Some(s)
  }

  pub fn mapped_chunks(&self) -> usize {
    self.chunks().filter(|c| c.3.is_some()).count()
  }

  /// Chunks with attribution resolved against the tables as announced at
  /// the time of the chunk.
  pub fn views(&self) -> Vec<ChunkView> {
    let mut sources: Vec<Option<(String, Option<String>)>> = Vec::new();
    let mut names: Vec<Option<String>> = Vec::new();
    let mut out = Vec::new();
    for e in &self.events {
      match e {
        Ev::Source { idx, name, content } => {
          let i = *idx as usize;
          if sources.len() <= i {
            sources.resize(i + 1, None);
          }
          sources[i] = Some((name.clone(), content.clone()));
        }
        Ev::Name { idx, name } => {
          let i = *idx as usize;
          if names.len() <= i {
            names.resize(i + 1, None);
          }
          names[i] = Some(name.clone());
        }
        Ev::Chunk { text, gl, gc, orig } => {
          let mut dangling = false;
          let attr = orig.as_ref().map(|(si, ol, oc, ni)| {
            let (file, content) = match sources.get(*si as usize).cloned().flatten() {
              Some(x) => x,
              None => {
                dangling = true;
                (format!("<unannounced source {si}>"), None)
              }
            };
            let name = ni.map(|n| match names.get(n as usize).cloned().flatten() {
              Some(x) => x,
              None => {
                dangling = true;
                format!("<unannounced name {n}>")
              }
            });
            Attr { file, content, line: *ol, col: *oc, name }
          });
          out.push(ChunkView {
            text: text.clone().unwrap_or_default(),
            gl: *gl,
            gc: *gc,
            attr,
            dangling,
          });
        }
      }
    }
    out
  }

  /// Per character of the reassembled text: index of the covering chunk view.
  pub fn char_chunks(&self, views: &[ChunkView]) -> Vec<usize> {
    let mut out = Vec::new();
    for (i, v) in views.iter().enumerate() {
      for _ in v.text.chars() {
        out.push(i);
      }
    }
    out
  }
}

/// A decoded map with its tables.
#[derive(Clone, Debug)]
pub struct MapView {
  pub segs: Vec<Seg>,
  pub sources: Vec<String>,
  pub contents: Vec<String>,
  pub names: Vec<String>,
  pub root: Option<String>,
  pub mappings: String,
}

impl MapView {
  pub fn of(m: &SourceMap) -> Result<MapView, String> {
    let segs = guarded(|| {
      m.decoded_mappings()
        .map(|x| Seg {
          gl: x.generated_line,
          gc: x.generated_column,
          orig: x
            .original
            .map(|o| (o.source_index, o.original_line, o.original_column, o.name_index)),
        })
        .collect::<Vec<_>>()
    })?;
    Ok(MapView {
      segs,
      sources: m.sources().to_vec(),
      contents: m.sources_content().to_vec(),
      names: m.names().to_vec(),
      root: m.source_root().map(|s| s.to_string()),
      mappings: m.mappings().to_string(),
    })
  }

  pub fn attr_of(&self, s: &Seg) -> Option<Attr> {
    s.orig.map(|(si, ol, oc, ni)| Attr {
      file: self
        .sources
        .get(si as usize)
        .map(|f| apply_root(self.root.as_deref(), f))
        .unwrap_or_else(|| format!("<source {si} out of table>")),
      content: self.contents.get(si as usize).cloned().filter(|c| !c.is_empty()),
      line: ol,
      col: oc,
      name: ni.map(|n| {
        self.names.get(n as usize).cloned().unwrap_or_else(|| format!("<name {n} out of table>"))
      }),
    })
  }

  /// greatest segment at or before (line, col) on that line
  pub fn resolve(&self, line: u32, col: u32) -> Option<Attr> {
    crate::refcodec::resolve(&self.segs, line, col).and_then(|s| self.attr_of(s))
  }

  /// columns=false reading: first mapped segment of the line
  pub fn resolve_line(&self, line: u32) -> Option<Attr> {
    crate::refcodec::first_mapped(&self.segs, line).and_then(|s| self.attr_of(s))
  }
}

pub fn map_of(src: &dyn Source, columns: bool) -> Result<Option<SourceMap>, String> {
  guarded(|| src.map(&MapOptions::new(columns)))
}
