//! E5: a CHESS-style stateless scheduler over real threads. Exactly one
//! controlled thread runs at a time; threads stop at the guarded hook points the
//! library executes before every access to shared state (and in callbacks of a
//! user-defined child source); whether a stopped thread can proceed is asked of
//! the real lock (Acquire probes) or derived from the OnceLock begin/end events.
//! All schedules of a small program are enumerated depth-first with a
//! preemption bound; each runs to completion and is checked against the
//! single-threaded answers.

use std::{
  collections::{BTreeMap, BTreeSet},
  rc::Rc,
  sync::mpsc::{channel, Receiver, RecvTimeoutError, Sender},
  time::Duration,
};

use rspack_sources::{
  verif::{self, Point},
  BoxSource, Source,
};
use serde::{Deserialize, Serialize};
use serde_json::{json, Value};

use crate::{
  engine::Ctx,
  hist::{answer, Answer, CsCall},
  model,
  term::{Repl, Term},
};

#[derive(Clone, Debug, Serialize, Deserialize)]
pub enum Obj {
  Build(Term),
  /// an object-level clone (shares caches) of an earlier object, made before the threads start
  CloneOf(usize),
}

#[derive(Clone, Debug, Serialize, Deserialize)]
pub enum Op {
  /// call on object i
  Call(usize, CsCall),
  /// clone object i on this thread, then call on the clone
  CloneCall(usize, CsCall),
  /// obj i == obj j
  Eq(usize, usize),
}

#[derive(Clone, Debug, Serialize, Deserialize)]
pub struct Program {
  pub name: String,
  pub objs: Vec<Obj>,
  pub threads: Vec<Vec<Op>>,
  pub user_yield: bool,
  /// also switch threads INSIDE the short critical sections announced by `Point::Held` (the lock
  /// is held at that moment). A thread that then blocks on that lock for real makes the schedule
  /// infeasible (the lock forces the other order): such executions are discarded, not judged.
  #[serde(default)]
  pub critical_sections: bool,
}

enum Cmd {
  Go,
  Probe,
  /// stop parking at hook points: run to completion (used to wind down a discarded execution)
  Free,
}

#[derive(Debug)]
enum Report {
  AtPoint { site: &'static str, kind: Kind },
  ProbeResult(bool),
  Event(Ev),
  Finished(Vec<Answer>),
}

#[derive(Debug, Clone, Copy)]
enum Kind {
  Access,
  /// inside a critical section, holding its lock
  Held,
  Acquire,
  OnceEnter { obj: usize },
}

#[derive(Debug, Clone)]
enum Ev {
  OnceBegin(usize),
  OnceEnd(usize),
  CacheInsert { columns: bool, final_source: bool, present: bool },
}

#[derive(Debug, Clone)]
pub struct Decision {
  /// canonical order: the thread that ran last first (if enabled), then ascending ids
  pub enabled: Vec<usize>,
  pub cur_enabled: bool,
  pub chosen: usize,
}

#[derive(Debug, Default)]
pub struct Execution {
  pub decisions: Vec<Decision>,
  pub trace: Vec<(usize, &'static str)>,
  pub answers: Vec<Vec<Answer>>,
  pub deadlock: Option<String>,
  pub replaced_cache_entry: Vec<String>,
  pub stuck: Option<String>,
  /// the scheduled thread blocked for real on a lock that a thread parked inside a critical section
  /// holds: this order of steps cannot happen
  pub infeasible: Option<String>,
  pub preemptions: usize,
}

fn build_objects(p: &Program) -> (Vec<BoxSource>, Vec<String>) {
  let mut objs: Vec<BoxSource> = Vec::new();
  let mut texts: Vec<String> = Vec::new();
  for o in &p.objs {
    match o {
      Obj::Build(t) => {
        objs.push(t.build());
        texts.push(model::model_text(t));
      }
      Obj::CloneOf(i) => {
        let c: Box<dyn Source> = dyn_clone::clone_box(objs[*i].as_ref());
        objs.push(c.into());
        texts.push(texts[*i].clone());
      }
    }
  }
  (objs, texts)
}

/// Non-blocking snapshots of the map caches reachable from the root objects through a chain of
/// CachedSource wrappers: (object index, depth, columns, final_source, address of the cached map).
fn cache_snapshots(objs: &[BoxSource]) -> Vec<(usize, usize, bool, bool, usize)> {
  use rspack_sources::CachedSource;
  let mut out = Vec::new();
  for (i, o) in objs.iter().enumerate() {
    let mut cur: &BoxSource = o;
    let mut depth = 0;
    while let Some(c) = cur.as_ref().as_any().downcast_ref::<CachedSource<BoxSource>>() {
      for (columns, fin, ptr) in c.verif_cache_try_snapshot() {
        out.push((i, depth, columns, fin, ptr));
      }
      cur = c.original();
      depth += 1;
    }
  }
  out
}

fn run_op(objs: &[BoxSource], texts: &[String], op: &Op) -> Answer {
  match op {
    Op::Call(i, c) => answer(objs[*i].as_ref(), *c, &texts[*i]),
    Op::CloneCall(i, c) => match crate::observe::guarded(|| dyn_clone::clone_box(objs[*i].as_ref())) {
      Ok(cl) => answer(cl.as_ref(), *c, &texts[*i]),
      Err(e) => Answer::Panic(e),
    },
    Op::Eq(i, j) => match crate::observe::guarded(|| &objs[*i] == &objs[*j]) {
      Ok(b) => Answer::Size(b as usize),
      Err(e) => Answer::Panic(e),
    },
  }
}

/// What each op answers single-threaded, on fresh objects, alone.
pub fn expected(p: &Program) -> Vec<Vec<Answer>> {
  p.threads
    .iter()
    .map(|ops| {
      ops
        .iter()
        .map(|op| {
          let (objs, texts) = build_objects(p);
          run_op(&objs, &texts, op)
        })
        .collect()
    })
    .collect()
}

struct Th {
  to: Sender<Cmd>,
  from: Receiver<Report>,
  at: Option<(&'static str, Kind)>,
  finished: bool,
  handle: Option<std::thread::JoinHandle<()>>,
}

const STEP_TIMEOUT: Duration = Duration::from_secs(20);
/// how long a scheduled thread may stay silent before it is considered blocked for real
const BLOCK_TIMEOUT: Duration = Duration::from_secs(3);
/// the same while another thread is parked inside a critical section (the expected reason)
const CS_BLOCK_TIMEOUT: Duration = Duration::from_millis(150);

pub fn run_schedule(p: &Program, prefix: &[usize]) -> Execution {
  let (objs, texts) = build_objects(p);
  let objs = std::sync::Arc::new(objs);
  let texts = std::sync::Arc::new(texts);
  let mut ex = Execution::default();
  let mut ths: Vec<Th> = Vec::new();
  for (ti, ops) in p.threads.iter().enumerate() {
    let (to, rx_cmd) = channel::<Cmd>();
    let (tx_rep, from) = channel::<Report>();
    let objs = objs.clone();
    let texts = texts.clone();
    let ops = ops.clone();
    let user_yield = p.user_yield;
    let critical_sections = p.critical_sections;
    let handle = std::thread::Builder::new()
      .name(format!("mc-sched-{ti}"))
      .spawn(move || {
        crate::term::USER_YIELD.with(|y| y.set(user_yield));
        let rx = Rc::new(rx_cmd);
        let tx = tx_rep.clone();
        let rx_h = rx.clone();
        let tx_h = tx_rep.clone();
        let free = Rc::new(std::cell::Cell::new(false));
        let free_h = free.clone();
        verif::set_handler(Some(Box::new(move |pt: &Point<'_>| {
          if free_h.get() {
            return;
          }
          let (site, kind, ready): (&'static str, Kind, Option<&dyn Fn() -> bool>) = match pt {
            Point::Access { site, .. } => (site, Kind::Access, None),
            Point::Held { site, .. } => {
              if !critical_sections {
                return; // the critical section stays one atomic step
              }
              (site, Kind::Held, None)
            }
            Point::Acquire { site, ready, .. } => (site, Kind::Acquire, Some(*ready)),
            Point::OnceEnter { site, obj, .. } => (site, Kind::OnceEnter { obj: *obj }, None),
            Point::OnceInitBegin { obj } => {
              let _ = tx_h.send(Report::Event(Ev::OnceBegin(*obj)));
              return;
            }
            Point::OnceInitEnd { obj } => {
              let _ = tx_h.send(Report::Event(Ev::OnceEnd(*obj)));
              return;
            }
            Point::CacheInsert { columns, final_source, present, .. } => {
              let _ = tx_h.send(Report::Event(Ev::CacheInsert { columns: *columns, final_source: *final_source, present: *present }));
              return;
            }
          };
          let _ = tx_h.send(Report::AtPoint { site, kind });
          loop {
            match rx_h.recv() {
              Ok(Cmd::Go) => break,
              Ok(Cmd::Free) => {
                free_h.set(true);
                break;
              }
              Ok(Cmd::Probe) => {
                let r = ready.map(|f| f()).unwrap_or(true);
                let _ = tx_h.send(Report::ProbeResult(r));
              }
              Err(_) => panic!("scheduler went away"),
            }
          }
        })));
        // the start of the thread is a scheduling point of its own
        let _ = tx.send(Report::AtPoint { site: "thread.start", kind: Kind::Access });
        loop {
          match rx.recv() {
            Ok(Cmd::Go) => break,
            Ok(Cmd::Free) => {
              free.set(true);
              break;
            }
            Ok(Cmd::Probe) => {
              let _ = tx.send(Report::ProbeResult(true));
            }
            Err(_) => return,
          }
        }
        let answers: Vec<Answer> = ops.iter().map(|op| run_op(&objs, &texts, op)).collect();
        verif::set_handler(None);
        let _ = tx.send(Report::Finished(answers));
      })
      .expect("spawn");
    ths.push(Th { to, from, at: None, finished: false, handle: Some(handle) });
  }
  ex.answers = vec![Vec::new(); ths.len()];
  let mut once_in_progress: BTreeMap<usize, usize> = BTreeMap::new();
  // wait for every thread to reach its start point
  for (ti, th) in ths.iter_mut().enumerate() {
    match th.from.recv_timeout(STEP_TIMEOUT) {
      Ok(Report::AtPoint { site, kind }) => th.at = Some((site, kind)),
      other => {
        ex.stuck = Some(format!("thread {ti} did not start: {other:?}"));
        return ex;
      }
    }
  }
  let mut last: Option<usize> = None;
  // write-once monitor that does not depend on where the library stores: every cache entry seen
  // in a (non-blocking) snapshot must keep its map for the rest of the execution
  let mut seen_entries: BTreeMap<(usize, usize, bool, bool), usize> = BTreeMap::new();
  loop {
    for (i, d, c, f, ptr) in cache_snapshots(&objs) {
      match seen_entries.get(&(i, d, c, f)) {
        Some(old) if *old != ptr => {
          ex.replaced_cache_entry.push(format!(
            "the map cached for (columns={c}, final_source={f}) in object {i} (wrapper depth {d}) was replaced after step {:?}",
            ex.trace.last()
          ));
          seen_entries.insert((i, d, c, f), ptr);
        }
        Some(_) => {}
        None => {
          seen_entries.insert((i, d, c, f), ptr);
        }
      }
    }
    let unfinished: Vec<usize> = (0..ths.len()).filter(|&t| !ths[t].finished).collect();
    if unfinished.is_empty() {
      break;
    }
    // who can proceed?
    let mut enabled: Vec<usize> = Vec::new();
    for &t in &unfinished {
      let ok = match ths[t].at {
        Some((_, Kind::Access)) | Some((_, Kind::Held)) => true,
        // in critical-section mode the blocking of get_or_init is not assumed: the thread is let
        // run, and if the real cell makes it wait the execution is discarded as infeasible
        Some((_, Kind::OnceEnter { .. })) if p.critical_sections => true,
        Some((_, Kind::OnceEnter { obj })) => match once_in_progress.get(&obj) {
          Some(owner) => *owner == t,
          None => true,
        },
        Some((_, Kind::Acquire)) => {
          let _ = ths[t].to.send(Cmd::Probe);
          match ths[t].from.recv_timeout(STEP_TIMEOUT) {
            Ok(Report::ProbeResult(b)) => b,
            other => {
              ex.stuck = Some(format!("thread {t} did not answer a probe: {other:?}"));
              return ex;
            }
          }
        }
        None => false,
      };
      if ok {
        enabled.push(t);
      }
    }
    if enabled.is_empty() {
      ex.deadlock = Some(format!(
        "no thread can proceed: {:?}",
        unfinished.iter().map(|&t| (t, ths[t].at.map(|a| a.0))).collect::<Vec<_>>()
      ));
      break;
    }
    let cur_enabled = last.map(|l| enabled.contains(&l)).unwrap_or(false);
    let mut order: Vec<usize> = Vec::new();
    if cur_enabled {
      order.push(last.unwrap());
    }
    for &t in &enabled {
      if Some(t) != last || !cur_enabled {
        if !order.contains(&t) {
          order.push(t);
        }
      }
    }
    let i = ex.decisions.len();
    let choice = if i < prefix.len() { prefix[i] } else { 0 };
    if choice >= order.len() {
      ex.stuck = Some(format!("replay divergence at decision {i}: choice {choice} of {order:?}"));
      break;
    }
    let t = order[choice];
    if cur_enabled && choice != 0 {
      ex.preemptions += 1;
    }
    ex.decisions.push(Decision { enabled: order.clone(), cur_enabled, chosen: choice });
    ex.trace.push((t, ths[t].at.map(|a| a.0).unwrap_or("?")));
    last = Some(t);
    let _ = ths[t].to.send(Cmd::Go);
    // run until its next point
    loop {
      let holder_parked = p.critical_sections
        && ((0..ths.len()).any(|o| o != t && !ths[o].finished && matches!(ths[o].at, Some((_, Kind::Held)))) || once_in_progress.values().any(|o| *o != t));
      match ths[t].from.recv_timeout(if holder_parked { CS_BLOCK_TIMEOUT } else { BLOCK_TIMEOUT }) {
        Ok(Report::AtPoint { site, kind }) => {
          ths[t].at = Some((site, kind));
          break;
        }
        Ok(Report::Finished(a)) => {
          ex.answers[t] = a;
          ths[t].finished = true;
          ths[t].at = None;
          break;
        }
        Ok(Report::Event(Ev::OnceBegin(o))) => {
          once_in_progress.insert(o, t);
        }
        Ok(Report::Event(Ev::OnceEnd(o))) => {
          once_in_progress.remove(&o);
        }
        Ok(Report::Event(Ev::CacheInsert { columns, final_source, present })) => {
          if present {
            ex.replaced_cache_entry.push(format!("thread {t} stored over the existing cache entry (columns={columns}, final_source={final_source})"));
          }
        }
        Ok(Report::ProbeResult(_)) => {}
        Err(RecvTimeoutError::Timeout) => {
          // The scheduled thread is blocked for real. Either it waits for a lock that a PAUSED
          // thread holds (an acquisition the hooks do not announce: a scheduling artefact), or it
          // can never proceed (a genuine deadlock, e.g. on a lock it holds itself). Tell them
          // apart by letting every other thread run to completion and looking again.
          let at = ex.trace.last().cloned();
          if holder_parked {
            // Expected in critical-section mode: the scheduled thread waits for the lock of a
            // critical section another thread is parked in. Let every thread run freely to its end
            // and discard the execution (the lock forbids this order of steps).
            let deadline = std::time::Instant::now() + BLOCK_TIMEOUT;
            let mut freed = vec![false; ths.len()];
            // parked threads are released at once; the blocked one when it reports its next point
            for o in 0..ths.len() {
              if o != t && !ths[o].finished {
                let _ = ths[o].to.send(Cmd::Free);
                freed[o] = true;
              }
            }
            while ths.iter().any(|th| !th.finished) && std::time::Instant::now() < deadline {
              for o in 0..ths.len() {
                if ths[o].finished {
                  continue;
                }
                match ths[o].from.recv_timeout(Duration::from_millis(5)) {
                  Ok(Report::Finished(a)) => {
                    ex.answers[o] = a;
                    ths[o].finished = true;
                  }
                  Ok(Report::AtPoint { .. }) => {
                    if !freed[o] {
                      let _ = ths[o].to.send(Cmd::Free);
                      freed[o] = true;
                    }
                  }
                  Ok(_) | Err(RecvTimeoutError::Timeout) => {}
                  Err(RecvTimeoutError::Disconnected) => {
                    ths[o].finished = true;
                  }
                }
              }
            }
            if ths.iter().all(|th| th.finished) {
              ex.infeasible = Some(format!("thread {t} after {at:?} waited for a lock held inside a critical section"));
              let handles: Vec<_> = ths.iter_mut().map(|t| t.handle.take()).collect();
              drop(ths);
              for h in handles.into_iter().flatten() {
                let _ = h.join();
              }
              return ex;
            }
            ex.stuck = Some(format!("thread {t} blocked after {at:?} in critical-section mode and the execution could not be wound down"));
            for th in ths.iter_mut() {
              th.handle.take();
            }
            return ex;
          }
          let mut others_done = true;
          for o in 0..ths.len() {
            if o == t || ths[o].finished {
              continue;
            }
            loop {
              let _ = ths[o].to.send(Cmd::Go);
              match ths[o].from.recv_timeout(BLOCK_TIMEOUT) {
                Ok(Report::Finished(a)) => {
                  ex.answers[o] = a;
                  ths[o].finished = true;
                  break;
                }
                Ok(Report::AtPoint { .. }) => continue,
                Ok(_) => continue,
                Err(_) => {
                  others_done = false;
                  break;
                }
              }
            }
          }
          let late = ths[t].from.recv_timeout(BLOCK_TIMEOUT);
          if others_done && late.is_err() {
            ex.deadlock = Some(format!(
              "thread {t} never returned after {at:?}: it stayed blocked although every other thread ran to completion"
            ));
          } else if !others_done && late.is_err() {
            // the other threads were released too and at least one of them blocked for good as
            // well: no thread is parked by the scheduler any more, and none of the rest moves
            ex.deadlock = Some(format!(
              "thread {t} never returned after {at:?}, and releasing every other thread did not help: the remaining threads block each other (lock-order deadlock)"
            ));
          } else {
            ex.stuck = Some(format!(
              "thread {t} blocked after {at:?} on a lock held by a paused thread (an acquisition without a hook point); others_done={others_done}"
            ));
          }
          // leak the threads that are blocked for real
          for th in ths.iter_mut() {
            th.handle.take();
          }
          return ex;
        }
        Err(RecvTimeoutError::Disconnected) => {
          ex.stuck = Some(format!("thread {t} died without reporting"));
          ths[t].finished = true;
          break;
        }
      }
    }
    if ex.stuck.is_some() {
      break;
    }
  }
  // tear down: closing the command channels makes parked threads unwind
  let handles: Vec<_> = ths.iter_mut().map(|t| t.handle.take()).collect();
  let all_finished = ths.iter().all(|t| t.finished);
  drop(ths);
  if all_finished {
    for h in handles.into_iter().flatten() {
      let _ = h.join();
    }
  }
  ex
}

#[derive(Default)]
pub struct Stats {
  pub schedules: u64,
  /// executions discarded because a real lock forbids their order (critical-section mode)
  pub infeasible: u64,
  pub by_preemptions: BTreeMap<usize, u64>,
  pub decisions: u64,
  pub distinct_traces: BTreeSet<u64>,
  pub distinct_outcomes: BTreeSet<u64>,
  pub max_decisions: usize,
  pub capped: bool,
}

fn h64<T: std::hash::Hash>(x: &T) -> u64 {
  use std::hash::Hasher;
  let mut h = rustc_hash::FxHasher::default();
  x.hash(&mut h);
  h.finish()
}

fn answers_digest(a: &[Vec<Answer>]) -> u64 {
  h64(&format!("{a:?}"))
}

pub fn check_execution(ctx: &mut Ctx, p: &Program, want: &[Vec<Answer>], ex: &Execution, choices: &[usize]) {
  let case = || json!({"program": serde_json::to_value(p).unwrap(), "schedule": choices, "trace": ex.trace.iter().map(|(t, s)| format!("T{t}:{s}")).collect::<Vec<_>>()});
  let size = ex.preemptions * 1000 + choices.len();
  if let Some(s) = &ex.stuck {
    // a thread blocked for real although the probes said it could run, or replay diverged: machinery, not a verdict
    ctx.notes.push(format!("MACHINERY: program {}: {s}", p.name));
    return;
  }
  if let Some(d) = &ex.deadlock {
    ctx.violation("deadlock", p.name.clone(), None, case, size, format!("program {}: {d}", p.name));
    return;
  }
  for r in &ex.replaced_cache_entry {
    ctx.violation("cached_map_replaced", p.name.clone(), None, case, size, format!("program {}: {r}", p.name));
  }
  for (t, (got, exp)) in ex.answers.iter().zip(want).enumerate() {
    for (i, (g, e)) in got.iter().zip(exp).enumerate() {
      if g != e {
        let clause = if matches!(g, Answer::Panic(_)) { "panic_under_schedule" } else { "answer_differs_from_sequential" };
        ctx.violation(
          clause,
          format!("{} T{t} op{i}", p.name),
          None,
          case,
          size,
          format!("program {}: thread {t} op {:?} answered {}, single-threaded {}", p.name, p.threads[t][i], brief(g), brief(e)),
        );
      }
    }
    if got.len() != exp.len() {
      ctx.violation("thread_incomplete", p.name.clone(), None, case, size, format!("thread {t} returned {} of {} answers", got.len(), exp.len()));
    }
  }
}

fn brief(a: &Answer) -> String {
  let s = format!("{a:?}");
  if s.len() > 240 {
    format!("{}…", &s[..240])
  } else {
    s
  }
}

/// Enumerate all schedules of `p` with at most `bound` preemptions.
pub fn explore(ctx: &mut Ctx, p: &Program, bound: usize, max_schedules: u64, k: usize, n: usize) -> Stats {
  let want = expected(p);
  let mut st = Stats::default();
  // determinism: the default schedule twice, identical traces
  let a = run_schedule(p, &[]);
  let b = run_schedule(p, &[]);
  if a.trace != b.trace || answers_digest(&a.answers) != answers_digest(&b.answers) {
    ctx.notes.push(format!("MACHINERY: program {} is not deterministic under the scheduler: {:?} vs {:?}", p.name, a.trace, b.trace));
    return st;
  }
  #[allow(clippy::too_many_arguments)]
  fn rec(ctx: &mut Ctx, p: &Program, want: &[Vec<Answer>], prefix: Vec<usize>, bound: usize, st: &mut Stats, max: u64, stripe: Option<(usize, usize)>) {
    if st.schedules >= max {
      st.capped = true;
      return;
    }
    let ex = run_schedule(p, &prefix);
    let choices: Vec<usize> = ex.decisions.iter().map(|d| d.chosen).collect();
    // the root schedule is run by every worker (to find the subtrees) but counted once
    let counted = match stripe {
      Some((k, _)) => k == 0,
      None => true,
    };
    if ex.infeasible.is_some() {
      if counted {
        st.infeasible += 1;
      }
    } else if counted {
      st.schedules += 1;
      *st.by_preemptions.entry(ex.preemptions).or_insert(0) += 1;
      st.decisions += ex.decisions.len() as u64;
      st.max_decisions = st.max_decisions.max(ex.decisions.len());
      st.distinct_traces.insert(h64(&ex.trace));
      st.distinct_outcomes.insert(answers_digest(&ex.answers));
      ctx.evaluations += 1;
      ctx.transitions += ex.decisions.len() as u64;
      if ex.preemptions >= 1 {
        ctx.nontrivial += 1;
      }
      check_execution(ctx, p, want, &ex, &choices);
      ctx.traces_validated += 1;
    }
    if ex.stuck.is_some() {
      return;
    }
    if ex.deadlock.as_deref().map(|d| d.contains("never returned")).unwrap_or(false) {
      // every such schedule costs seconds of waiting: one witness per program is enough
      st.capped = true;
      st.schedules = max;
      return;
    }
    let mut subtree = 0usize;
    let mut pre = 0usize;
    for i in 0..ex.decisions.len() {
      let d = &ex.decisions[i];
      if i >= prefix.len() {
        for alt in 1..d.enabled.len() {
          let cost = pre + if d.cur_enabled { 1 } else { 0 };
          if cost > bound {
            continue;
          }
          let mut np: Vec<usize> = choices[..i].to_vec();
          np.push(alt);
          subtree += 1;
          if let Some((k, n)) = stripe {
            if subtree % n != k {
              continue;
            }
          }
          rec(ctx, p, want, np, bound, st, max, None);
        }
      }
      if d.cur_enabled && d.chosen != 0 {
        pre += 1;
      }
    }
  }
  rec(ctx, p, &want, vec![], bound, &mut st, max_schedules, Some((k, n)));
  st
}

// --------------------------------------------------------------------------- programs

fn unsorted_replace() -> Term {
  Term::replace(
    Term::orig("abc\nd", "r.js"),
    vec![Repl::new(2, 3, "Y"), Repl::new(0, 1, "X"), Repl::new(0, 1, "W").enf(0), Repl::new(4, 9, "\n")],
  )
}

fn cached_tree() -> Term {
  Term::cached(Term::concat(vec![Term::orig("a;b\n", "c.js"), Term::raw("x"), Term::orig("q", "d.js")]))
}

pub fn programs(tier: &str) -> Vec<Program> {
  use CsCall::*;
  let thorough = tier == "thorough";
  let r = || Obj::Build(unsorted_replace());
  let c = || Obj::Build(cached_tree());
  let mk = |name: &str, objs: Vec<Obj>, threads: Vec<Vec<Op>>| Program { name: name.to_string(), objs, threads, user_yield: false, critical_sections: false };
  let script = {
    let leaves = crate::trees::script_leaves(&["a\nb"], 2, &[None, Some(crate::trees::K_A), Some(crate::trees::K_B)], true);
    leaves[11].clone()
  };
  let mut v = vec![
    // P1 ReplaceSource, lazy sort and clone
    mk("P1a replace source||source", vec![r()], vec![vec![Op::Call(0, Source)], vec![Op::Call(0, Source)]]),
    mk("P1b replace source||hash", vec![r()], vec![vec![Op::Call(0, Source)], vec![Op::Call(0, Hash)]]),
    mk("P1c replace source||clone->source", vec![r()], vec![vec![Op::Call(0, Source)], vec![Op::CloneCall(0, Source)]]),
    mk("P1d replace clone->map||stream", vec![r()], vec![vec![Op::CloneCall(0, MapT)], vec![Op::Call(0, StreamTN)]]),
    mk(
      "P1e replace source||clone->source||hash",
      vec![r()],
      vec![vec![Op::Call(0, Source)], vec![Op::CloneCall(0, Source)], vec![Op::Call(0, Hash)]],
    ),
    mk("P1h replace a==b||b==a", vec![r(), r()], vec![vec![Op::Eq(0, 1)], vec![Op::Eq(1, 0)]]),
    mk("P1i replace a==b,source||b==a,hash", vec![r(), r()], vec![vec![Op::Eq(0, 1), Op::Call(0, Source)], vec![Op::Eq(1, 0), Op::Call(1, Hash)]]),
    mk("P1f replace clone->source,clone->hash||map", vec![r()], vec![vec![Op::CloneCall(0, Source), Op::CloneCall(0, Hash)], vec![Op::Call(0, MapT)]]),
    // P2 cold CachedSource
    mk("P2a cached map||stream", vec![c()], vec![vec![Op::Call(0, MapT)], vec![Op::Call(0, StreamTN)]]),
    mk("P2b cached map||stream||stream", vec![c()], vec![vec![Op::Call(0, MapT)], vec![Op::Call(0, StreamTN)], vec![Op::Call(0, StreamTN)]]),
    mk("P2c cached map(T)||map(F)", vec![c()], vec![vec![Op::Call(0, MapT)], vec![Op::Call(0, MapF)]]),
    mk("P2d cached stream||stream", vec![c()], vec![vec![Op::Call(0, StreamTN)], vec![Op::Call(0, StreamTN)]]),
    mk("P2e cached hash||hash||map", vec![c()], vec![vec![Op::Call(0, Hash)], vec![Op::Call(0, Hash)], vec![Op::Call(0, MapT)]]),
    mk("P2f cached map,stream||stream,map", vec![c()], vec![vec![Op::Call(0, MapT), Op::Call(0, StreamTN)], vec![Op::Call(0, StreamTN), Op::Call(0, MapT)]]),
    mk("P2g cached stream(final)||map||stream(F)", vec![c()], vec![vec![Op::Call(0, StreamTF)], vec![Op::Call(0, MapT)], vec![Op::Call(0, StreamFN)]]),
    // P3 clones sharing the cache
    mk("P3a clone map||stream", vec![c(), Obj::CloneOf(0)], vec![vec![Op::Call(0, MapT)], vec![Op::Call(1, StreamTN)]]),
    mk("P3b stream||clone->map", vec![c()], vec![vec![Op::Call(0, StreamTN)], vec![Op::CloneCall(0, MapT)]]),
    mk("P3c map,stream||clone map", vec![c(), Obj::CloneOf(0)], vec![vec![Op::Call(0, MapT), Op::Call(0, StreamTN)], vec![Op::Call(1, MapT)]]),
    mk("P3d hash||clone hash||clone->hash", vec![c(), Obj::CloneOf(0)], vec![vec![Op::Call(0, Hash)], vec![Op::Call(1, Hash)], vec![Op::CloneCall(0, Hash)]]),
    // (two values that differ but hash alike - the same bytes held as text and as a buffer: the answer
    // of == must not depend on which hash cells other threads have filled by then)
    mk(
      "P3e cached(text)==cached(bytes)||hash a||hash b",
      vec![Obj::Build(Term::cached(Term::Raw("ab\n".into()))), Obj::Build(Term::cached(Term::RawBuf(b"ab\n".to_vec())))],
      vec![vec![Op::Eq(0, 1)], vec![Op::Call(0, Hash)], vec![Op::Call(1, Hash)]],
    ),
    mk(
      "P3f cached a==clone||hash a||clone hash",
      vec![c(), Obj::CloneOf(0)],
      vec![vec![Op::Eq(0, 1)], vec![Op::Call(0, Hash)], vec![Op::Call(1, Hash)]],
    ),
    // P4 lazily decoded buffers
    mk(
      "P4a rawbuffer source||source||eq",
      vec![Obj::Build(Term::RawBufS(vec![b'a', 0xff, b'\n'])), Obj::Build(Term::RawBufS(vec![b'a', 0xff, b'\n']))],
      vec![vec![Op::Call(0, Source)], vec![Op::Call(0, Source)], vec![Op::Eq(0, 1)]],
    ),
    mk(
      "P4b raw(buffer) source||stream||eq",
      vec![Obj::Build(Term::RawBuf(vec![b'a', 0xff, b'\n'])), Obj::Build(Term::RawBuf(vec![b'a', 0xff, b'\n']))],
      vec![vec![Op::Call(0, Source)], vec![Op::Call(0, StreamTN)], vec![Op::Eq(0, 1)]],
    ),
    // P5 composites
    mk(
      "P5a concat[cached(replace),cached] map||map||hash",
      vec![Obj::Build(Term::concat(vec![Term::cached(unsorted_replace()), Term::cached(Term::orig("z\n", "z.js"))]))],
      vec![vec![Op::Call(0, MapT)], vec![Op::Call(0, MapT)], vec![Op::Call(0, Hash)]],
    ),
    mk(
      "P5b cached(replace) hash||hash||source",
      vec![Obj::Build(Term::cached(unsorted_replace()))],
      vec![vec![Op::Call(0, Hash)], vec![Op::Call(0, Hash)], vec![Op::Call(0, Source)]],
    ),
    mk(
      "P5c cached(cached(replace)) map||stream",
      vec![Obj::Build(Term::cached(Term::cached(unsorted_replace())))],
      vec![vec![Op::Call(0, MapT)], vec![Op::Call(0, StreamTN)]],
    ),
  ];
  // P6 user-defined child yielding inside its callbacks
  let mut p6a = mk("P6a cached(script) stream||map", vec![Obj::Build(Term::cached(script.clone()))], vec![vec![Op::Call(0, StreamTN)], vec![Op::Call(0, MapT)]]);
  p6a.user_yield = true;
  v.push(p6a);
  let mut p6b = mk(
    "P6b concat[cached(script),raw] map||map",
    vec![Obj::Build(Term::concat(vec![Term::cached(script.clone()), Term::raw("t")]))],
    vec![vec![Op::Call(0, MapT)], vec![Op::Call(0, MapT)]],
  );
  p6b.user_yield = true;
  v.push(p6b);
  // P7 the ReplaceSource programs again with thread switches INSIDE the critical sections of the
  // sorted index (store in the lazy sort, read, copy in clone): a thread that needs the held lock
  // blocks for real and the execution is discarded as infeasible; a non-blocking attempt
  // (try_lock) would run and its consequences are judged
  for (name, threads) in [
    ("P7a [critical sections] replace source||clone->source", vec![vec![Op::Call(0, Source)], vec![Op::CloneCall(0, Source)]]),
    ("P7b [critical sections] replace hash||source", vec![vec![Op::Call(0, Hash)], vec![Op::Call(0, Source)]]),
    ("P7c [critical sections] replace clone->hash||source,source", vec![vec![Op::CloneCall(0, Hash)], vec![Op::Call(0, Source), Op::Call(0, Source)]]),
  ] {
    let mut q = mk(name, vec![r()], threads);
    q.critical_sections = true;
    v.push(q);
  }
  // ... and the lazily initialised cells (cached hash shared by clones, lazily decoded buffer): the
  // scheduler does not assume that get_or_init makes a second caller wait
  for (name, objs, threads) in [
    ("P7d [critical sections] cached(replace) hash||hash", vec![Obj::Build(Term::cached(unsorted_replace()))], vec![vec![Op::Call(0, Hash)], vec![Op::Call(0, Hash)]]),
    ("P7e [critical sections] cached hash||clone hash", vec![c(), Obj::CloneOf(0)], vec![vec![Op::Call(0, Hash)], vec![Op::Call(1, Hash)]]),
    (
      "P7f [critical sections] rawbuffer source||source",
      vec![Obj::Build(Term::RawBufS(vec![b'a', 0xff, b'\n']))],
      vec![vec![Op::Call(0, Source)], vec![Op::Call(0, Source)]],
    ),
  ] {
    let mut q = mk(name, objs, threads);
    q.critical_sections = true;
    v.push(q);
  }
  v.extend(generated_programs(tier));
  if thorough {
    let mut p6c = mk(
      "P6c cached(script) stream||stream||map",
      vec![Obj::Build(Term::cached(script))],
      vec![vec![Op::Call(0, StreamTN)], vec![Op::Call(0, StreamTN)], vec![Op::Call(0, MapT)]],
    );
    p6c.user_yield = true;
    v.push(p6c);
    v.push(mk(
      "P2h cached 3 threads x 2 ops",
      vec![c()],
      vec![vec![Op::Call(0, MapT), Op::Call(0, Hash)], vec![Op::Call(0, StreamTN), Op::Call(0, MapF)], vec![Op::Call(0, StreamFN), Op::Call(0, StreamTN)]],
    ));
    v.push(mk(
      "P1g replace 3 threads x 2 ops",
      vec![r()],
      vec![vec![Op::Call(0, Source), Op::CloneCall(0, Hash)], vec![Op::CloneCall(0, Source), Op::Call(0, MapT)], vec![Op::Call(0, Hash), Op::CloneCall(0, StreamTN)]],
    ));
  }
  v
}

/// Systematically generated programs: for each shared object shape, every unordered pair of
/// single operations from an 8-call alphabet (2 threads), on the object itself and - for the
/// cached shapes - on the object and a pre-made clone sharing its cache; in the thorough tier also
/// every 3-thread program over a 4-call alphabet.
pub fn generated_programs(tier: &str) -> Vec<Program> {
  use CsCall::*;
  let thorough = tier == "thorough";
  let shapes: Vec<(&str, Term, bool)> = vec![
    ("replace", unsorted_replace(), false),
    ("cached", cached_tree(), true),
    ("cached(replace)", Term::cached(unsorted_replace()), true),
    ("concat[cached(replace),raw]", Term::concat(vec![Term::cached(unsorted_replace()), Term::raw("t\n")]), false),
    ("replace(rawbuffer)", Term::replace(Term::RawBufS(vec![b'a', 0xff, b'\n', b'b']), vec![Repl::new(4, 5, "Y"), Repl::new(0, 1, "X")]), false),
  ];
  let calls: Vec<(&str, fn(usize) -> Op)> = vec![
    ("source", |i| Op::Call(i, Source)),
    ("hash", |i| Op::Call(i, Hash)),
    ("map(T)", |i| Op::Call(i, MapT)),
    ("map(F)", |i| Op::Call(i, MapF)),
    ("stream(T)", |i| Op::Call(i, StreamTN)),
    ("stream(T,final)", |i| Op::Call(i, StreamTF)),
    ("clone->source", |i| Op::CloneCall(i, Source)),
    ("clone->map(T)", |i| Op::CloneCall(i, MapT)),
  ];
  let mut v = Vec::new();
  for (sname, term, cached) in &shapes {
    for a in 0..calls.len() {
      for b in a..calls.len() {
        v.push(Program {
          name: format!("G2 {sname}: {} || {}", calls[a].0, calls[b].0),
          objs: vec![Obj::Build(term.clone())],
          threads: vec![vec![calls[a].1(0)], vec![calls[b].1(0)]],
          user_yield: false,
          critical_sections: false,
        });
        if *cached && a < 6 && b < 6 {
          v.push(Program {
            name: format!("G2c {sname}: {} || clone.{}", calls[a].0, calls[b].0),
            objs: vec![Obj::Build(term.clone()), Obj::CloneOf(0)],
            threads: vec![vec![calls[a].1(0)], vec![calls[b].1(1)]],
            user_yield: false,
            critical_sections: false,
          });
        }
      }
    }
    if thorough {
      let small = [0usize, 1, 2, 4];
      for (x, &a) in small.iter().enumerate() {
        for (y, &b) in small.iter().enumerate().skip(x) {
          for &c in small.iter().skip(y) {
            v.push(Program {
              name: format!("G3 {sname}: {} || {} || {}", calls[a].0, calls[b].0, calls[c].0),
              objs: vec![Obj::Build(term.clone())],
              threads: vec![vec![calls[a].1(0)], vec![calls[b].1(0)], vec![calls[c].1(0)]],
              user_yield: false,
              critical_sections: false,
            });
          }
        }
      }
    }
  }
  v
}

pub fn bound_for(tier: &str, p: &Program) -> usize {
  let ops: usize = p.threads.iter().map(|t| t.len()).sum();
  if p.name.starts_with('G') {
    return match (tier == "thorough", p.threads.len()) {
      (true, 2) => 3,
      (true, _) => 2,
      (false, _) => 2,
    };
  }
  if p.critical_sections {
    // every infeasible execution costs a wait: 2 preemptions quick, 3 thorough
    return if tier == "thorough" { 3 } else { 2 };
  }
  if tier == "thorough" {
    if p.threads.len() == 2 && ops <= 2 {
      6
    } else if p.threads.len() == 2 || ops <= 3 {
      4
    } else {
      3
    }
  } else if p.threads.len() == 2 {
    3
  } else {
    2
  }
}

pub fn worker(tier: &str, k: usize, n: usize, ctx: &mut Ctx) {
  let progs = programs(tier);
  let cap: u64 = if tier == "thorough" { 3_000_000 } else { 150_000 };
  for p in progs.iter() {
    crate::set_current_desc(json!({"program": p.name}).to_string());
    let bound = bound_for(tier, p);
    // the subtrees below the default schedule are striped over the workers
    let st = explore(ctx, p, bound, cap, k, n);
    ctx.states += st.decisions;
    for h in &st.distinct_outcomes {
      ctx.outcomes.insert(*h);
    }
    let key = |what: &str| format!("{} | {what}", p.name);
    ctx.add(&key("schedules"), st.schedules);
    ctx.add("schedules", st.schedules);
    for (pre, c) in &st.by_preemptions {
      ctx.add(&key(&format!("schedules with {pre} preemptions")), *c);
    }
    if p.critical_sections {
      ctx.add(&key("executions discarded as infeasible (the scheduled thread blocked on a lock held inside a critical section)"), st.infeasible);
      ctx.add("infeasible_executions_discarded", st.infeasible);
    }
    ctx.add(&key("distinct interleavings"), st.distinct_traces.len() as u64);
    ctx.add("distinct_interleavings", st.distinct_traces.len() as u64);
    if k == 0 {
      ctx.add(&key("threads"), p.threads.len() as u64);
      ctx.add(&key("preemption bound completed"), bound as u64);
    }
    if st.capped {
      ctx.notes.push(format!("MACHINERY: program {} hit the schedule cap {cap} in worker {k}", p.name));
    }
    if k == 0 && ctx.samples.len() < 3 {
      let ex = run_schedule(p, &[]);
      ctx.samples.push(json!({"program": p.name, "threads": serde_json::to_value(&p.threads).unwrap(), "default_schedule_trace": ex.trace.iter().map(|(t, s)| format!("T{t}:{s}")).collect::<Vec<_>>()}));
    }
  }
}

pub fn bounds(tier: &str) -> Value {
  let progs = programs(tier);
  json!({
    "engine": "E5 sched: real threads run one at a time, yielding at guarded hook points before every shared-state access; enabledness from probes of the real DashMap locks and OnceLock begin/end events; DFS over all schedules with a preemption bound; every schedule runs to completion",
    "hand_written_programs": progs.iter().filter(|p| !p.name.starts_with('G')).map(|p| json!({"name": p.name, "threads": p.threads.len(), "ops": p.threads.iter().map(|t| t.len()).sum::<usize>(), "preemption_bound": bound_for(tier, p)})).collect::<Vec<_>>(),
    "generated_programs": {
      "count": progs.iter().filter(|p| p.name.starts_with('G')).count(),
      "rule": "for each of 5 shared object shapes (replace, cached, cached(replace), concat[cached(replace),raw], replace(rawbuffer)): every unordered pair of single calls from {source, hash, map(T), map(F), stream(T), stream(T,final), clone->source, clone->map(T)} on 2 threads; for cached shapes also original || pre-made clone; thorough: every 3-thread multiset over {source, hash, map(T), stream(T)}",
      "preemption_bound": if tier == "thorough" { "3 (2 threads) / 2 (3 threads)" } else { "2" },
    },
    "per_program_results": "see coverage.counters: '<program> | schedules', '... with k preemptions', 'distinct interleavings', 'preemption bound completed'",
    "not_explored": "interleavings finer than the hook points; weak-memory reorderings (the code uses SeqCst atomics and locks only)",
  })
}

pub fn replay(ctx: &mut Ctx, case: &Value) {
  let p: Program = serde_json::from_value(case["program"].clone()).expect("program");
  let schedule: Vec<usize> = serde_json::from_value(case["schedule"].clone()).expect("schedule");
  let want = expected(&p);
  let ex = run_schedule(&p, &schedule);
  let choices: Vec<usize> = ex.decisions.iter().map(|d| d.chosen).collect();
  println!("trace: {:?}", ex.trace);
  check_execution(ctx, &p, &want, &ex, &choices);
}
