//! Oracles for the tree properties (C01 C02 C03 C04 C07 C11 C13 and the
//! tree part of C17/C19). Each takes a term, builds the real object and
//! compares observations with the reference models.

use rspack_sources::{BoxSource, Source};
use serde_json::{json, Value};

use crate::{
  engine::Ctx,
  model::{self, Prov},
  observe::{self, Attr, ChunkView, MapView, Stream},
  term::Term,
};

pub fn case_json(t: &Term) -> Value {
  serde_json::to_value(t).unwrap()
}

pub struct Obs {
  pub src: BoxSource,
  pub text: Result<String, String>,
}

impl Obs {
  pub fn new(t: &Term) -> Result<Obs, String> {
    let src = observe::guarded(|| t.build())?;
    let text = observe::guarded(|| src.source().into_owned());
    Ok(Obs { src, text })
  }
  pub fn stream(&self, columns: bool, fin: bool) -> Result<Stream, String> {
    observe::stream(self.src.as_ref(), columns, fin)
  }
  pub fn map(&self, columns: bool) -> Result<Option<MapView>, String> {
    match observe::map_of(self.src.as_ref(), columns)? {
      None => Ok(None),
      Some(m) => Ok(Some(MapView::of(&m)?)),
    }
  }
}

fn short(s: &str) -> String {
  s.lines().next().unwrap_or("").chars().take(160).collect()
}

fn panic_sig(msg: &str) -> String {
  // location part after '@'
  msg.rsplit('@').next().unwrap_or(msg).trim().to_string()
}

/// Report a panic of the subject under the property being checked.
pub fn report_panic(ctx: &mut Ctx, t: &Term, what: &str, msg: &str) {
  let key = crate::findings::classify_panic(t, msg);
  ctx.violation(
    "panic",
    format!("{what}:{}", panic_sig(msg)),
    key,
    || case_json(t),
    t.size(),
    format!("{what} panicked: {}", short(msg)),
  );
}

// ---------------------------------------------------------------- C01

pub fn c01(ctx: &mut Ctx, t: &Term) {
  ctx.evaluations += 1;
  let obs = match Obs::new(t) {
    Ok(o) => o,
    Err(e) => return report_panic(ctx, t, "build", &e),
  };
  let text = match &obs.text {
    Ok(s) => s.clone(),
    Err(e) => return report_panic(ctx, t, "source()", e),
  };
  let model = model::model_text(t);
  if text != model {
    ctx.violation(
      "source_equals_model",
      String::new(),
      None,
      || case_json(t),
      t.size(),
      format!("source()={text:?} model={model:?}"),
    );
  }
  let mut nontrivial = false;
  // a CachedSource answers the second request from its cache (replay over rope()): ask twice
  let rounds = if has_cached(t) { 2 } else { 1 };
  for (_round, columns) in (0..rounds).flat_map(|r| [(r, true), (r, false)]) {
    match obs.stream(columns, false) {
      Err(e) => report_panic(ctx, t, &format!("stream(columns={columns})"), &e),
      Ok(s) => {
        ctx.transitions += s.events.len() as u64;
        let n = s.chunks().count();
        if n >= 2 {
          nontrivial = true;
        }
        ctx.outcome(&(n, s.mapped_chunks(), columns));
        match s.text() {
          None => ctx.violation(
            "chunk_without_text",
            format!("columns={columns}"),
            None,
            || case_json(t),
            t.size(),
            "a chunk delivered to an outside caller carried no text".into(),
          ),
          Some(joined) => {
            if joined != text {
              ctx.violation(
                "reassembly",
                format!("columns={columns}"),
                None,
                || case_json(t),
                t.size(),
                format!("chunks join to {joined:?}, source() is {text:?}"),
              );
            }
          }
        }
      }
    }
  }
  // ... and on a fresh object whose FIRST call was map(): a cache below the root is then filled by
  // a text-less (final-source) stream, and the outside stream that follows must still carry the text
  if has_cached(t) {
    if let Ok(o2) = Obs::new(t) {
      for columns in [true, false] {
        let _ = o2.map(columns);
        ctx.count("streams_after_map_first");
        match o2.stream(columns, false) {
          Err(e) => report_panic(ctx, t, &format!("stream(columns={columns}) after map()"), &e),
          Ok(s) => {
            ctx.transitions += s.events.len() as u64;
            match s.text() {
              None => ctx.violation("chunk_without_text", format!("after map, columns={columns}"), None, || case_json(t), t.size(), "after map() was called first, a chunk delivered to an outside caller carried no text".into()),
              Some(joined) => {
                if joined != text {
                  ctx.violation("reassembly", format!("after map, columns={columns}"), None, || case_json(t), t.size(), format!("after map() was called first, chunks join to {joined:?}, source() is {text:?}"));
                }
              }
            }
          }
        }
      }
    }
  }
  if nontrivial {
    ctx.nontrivial += 1;
  }
  ctx.traces_validated += 1;
}

// ---------------------------------------------------------------- C02

pub fn c02(ctx: &mut Ctx, t: &Term) {
  ctx.evaluations += 1;
  let obs = match Obs::new(t) {
    Ok(o) => o,
    Err(e) => return report_panic(ctx, t, "build", &e),
  };
  let text = match &obs.text {
    Ok(s) => s.clone(),
    Err(e) => return report_panic(ctx, t, "source()", e),
  };
  let (pos, end) = model::positions(&text);
  let mut nontrivial = false;
  let rounds = if has_cached(t) { 2 } else { 1 };
  for (_round, columns) in (0..rounds).flat_map(|r| [(r, true), (r, false)]) {
    // normal mode
    match obs.stream(columns, false) {
      Err(e) => report_panic(ctx, t, &format!("stream({columns},normal)"), &e),
      Ok(s) => {
        ctx.transitions += s.events.len() as u64;
        let mut off = 0usize;
        let mut bad = None;
        let mut nchunks = 0;
        for (txt, gl, gc, _) in s.chunks() {
          nchunks += 1;
          let txt = txt.clone().unwrap_or_default();
          let truth = if off < pos.len() { pos[off] } else { end };
          if (gl, gc) != truth && bad.is_none() {
            bad = Some(format!(
              "chunk {txt:?} reported at {gl}:{gc}, really starts at {}:{}",
              truth.0, truth.1
            ));
          }
          off += txt.chars().count();
        }
        if nchunks >= 2 && (end.0 > 1) {
          nontrivial = true;
        }
        ctx.outcome(&(s.info, nchunks, columns));
        if let Some(b) = bad {
          ctx.violation("chunk_position", format!("columns={columns}"), None, || case_json(t), t.size(), b);
        }
        if s.info != end {
          ctx.violation(
            "generated_info",
            format!("columns={columns} normal"),
            None,
            || case_json(t),
            t.size(),
            format!("returned end {}:{}, text {text:?} ends at {}:{}", s.info.0, s.info.1, end.0, end.1),
          );
        }
      }
    }
    // final (text-less) mode
    match obs.stream(columns, true) {
      Err(e) => report_panic(ctx, t, &format!("stream({columns},final)"), &e),
      Ok(s) => {
        ctx.transitions += s.events.len() as u64;
        if s.info != end {
          ctx.violation(
            "generated_info",
            format!("columns={columns} final"),
            None,
            || case_json(t),
            t.size(),
            format!("final mode returned end {}:{}, text {text:?} ends at {}:{}", s.info.0, s.info.1, end.0, end.1),
          );
        }
        let mut prev = (0u32, 0u32);
        for (_, gl, gc, _) in s.chunks() {
          if !pos.contains(&(gl, gc)) {
            ctx.violation(
              "final_position_not_in_text",
              format!("columns={columns}"),
              None,
              || case_json(t),
              t.size(),
              format!("final mode reported {gl}:{gc}, not the position of a character of {text:?}"),
            );
            break;
          }
          if (gl, gc) < prev {
            ctx.violation(
              "final_position_order",
              format!("columns={columns}"),
              None,
              || case_json(t),
              t.size(),
              format!("final mode positions go backwards: {}:{} after {}:{}", gl, gc, prev.0, prev.1),
            );
            break;
          }
          prev = (gl, gc);
        }
      }
    }
  }
  if nontrivial {
    ctx.nontrivial += 1;
  }
  ctx.traces_validated += 1;
}

// ---------------------------------------------------------------- C03

/// Per character: attribution of the covering chunk of the outside stream.
pub fn stream_attrs(s: &Stream) -> (Vec<ChunkView>, Vec<usize>) {
  let views = s.views();
  let cc = s.char_chunks(&views);
  (views, cc)
}

fn attr4(a: &Option<Attr>) -> Option<(String, u32, u32, Option<String>)> {
  a.as_ref().map(|a| a.no_content())
}

/// A CachedSource beneath a ReplaceSource replays coarser chunks once its cache
/// is filled, and ReplaceSource refines columns per chunk: the object's stream then
/// depends on what was called before. map() and stream are therefore compared in
/// the same cache state: cold (a fresh object for each) and warm (all caches filled).
pub fn has_cached(t: &Term) -> bool {
  t.any(&|x| matches!(x, Term::Cached(_)))
}

pub fn cached_under_replace(t: &Term) -> bool {
  t.any(&|x| match x {
    Term::Replace(i, r) if !r.is_empty() => i.any(&|y| matches!(y, Term::Cached(_))),
    _ => false,
  })
}

pub fn c03(ctx: &mut Ctx, t: &Term) {
  ctx.evaluations += 1;
  if cached_under_replace(t) {
    ctx.count("cold_and_warm_comparisons");
    // cold: separate fresh objects
    match (Obs::new(t), Obs::new(t)) {
      (Ok(a), Ok(b)) => c03_on(ctx, t, &a, &b, "cold"),
      (Err(e), _) | (_, Err(e)) => return report_panic(ctx, t, "build", &e),
    }
    // warm: one object with every cache filled first
    match Obs::new(t) {
      Ok(o) => {
        for columns in [true, false] {
          let _ = o.stream(columns, false);
          let _ = o.map(columns);
        }
        c03_on(ctx, t, &o, &o, "warm");
      }
      Err(e) => report_panic(ctx, t, "build", &e),
    }
  } else {
    match Obs::new(t) {
      Ok(o) => {
        c03_on(ctx, t, &o, &o, "same");
        if has_cached(t) {
          // the same object once more, in the other order of column settings (an answer cached for
          // one setting must not decide the other): map() is present exactly when the stream of
          // the same setting has a mapped chunk
          match Obs::new(t) {
            Ok(o2) => {
              for columns in [true, false, true] {
                let (Ok(m), Ok(st)) = (o2.map(columns), o2.stream(columns, false)) else { continue };
                let mapped = st.mapped_chunks() > 0;
                if m.is_some() != mapped {
                  let key = crate::findings::classify_map_presence(t, m.is_some());
                  ctx.violation(
                    "map_presence_after_other_setting",
                    format!("columns={columns}"),
                    key,
                    || case_json(t),
                    t.size(),
                    format!("same object, columns={columns} after the other setting: map() is {}, the stream has {} mapped chunk(s)", if m.is_some() { "Some" } else { "None" }, st.mapped_chunks()),
                  );
                }
              }
            }
            Err(e) => report_panic(ctx, t, "build", &e),
          }
          // ... and the full comparison on objects whose first call was one of the four single
          // observations (what a cache keeps from that first call - under whichever key - must not
          // reach a later call with other options)
          for (first, fc, is_map) in [("map(columns=false) first", false, true), ("stream(columns=false) first", false, false), ("map(columns=true) first", true, true), ("stream(columns=true,final) first", true, false)] {
            match Obs::new(t) {
              Ok(o3) => {
                if is_map {
                  let _ = o3.map(fc);
                } else if fc {
                  let _ = o3.stream(true, true);
                } else {
                  let _ = o3.stream(false, false);
                }
                ctx.count("first_call_orders");
                c03_on(ctx, t, &o3, &o3, first);
              }
              Err(e) => report_panic(ctx, t, "build", &e),
            }
          }
        }
      }
      Err(e) => report_panic(ctx, t, "build", &e),
    }
  }
  ctx.traces_validated += 1;
}

fn c03_on(ctx: &mut Ctx, t: &Term, obs: &Obs, obs_map: &Obs, state: &str) {
  let text = match &obs.text {
    Ok(s) => s.clone(),
    Err(e) => return report_panic(ctx, t, "source()", e),
  };
  let (pos, _end) = model::positions(&text);
  let mut nontrivial = false;
  for columns in [true, false] {
    let s = match obs.stream(columns, false) {
      Ok(s) => s,
      Err(e) => {
        report_panic(ctx, t, &format!("stream({columns})"), &e);
        continue;
      }
    };
    let m = match obs_map.map(columns) {
      Ok(m) => m,
      Err(e) => {
        report_panic(ctx, t, &format!("map({columns})"), &e);
        continue;
      }
    };
    ctx.transitions += s.events.len() as u64 + 1;
    let (views, cc) = stream_attrs(&s);
    if cc.len() != pos.len() {
      // reassembly broken: C01's business
      ctx.count("skipped_reassembly_mismatch");
      continue;
    }
    let any_mapped = views.iter().any(|v| v.attr.is_some() && !v.text.is_empty());
    if any_mapped && views.len() >= 2 {
      nontrivial = true;
    }
    ctx.outcome(&(views.len(), any_mapped, m.is_some(), columns));
    // map() is None exactly when no streamed chunk is mapped
    if m.is_some() != any_mapped {
      let key = crate::findings::classify_map_presence(t, m.is_some());
      ctx.violation(
        "map_presence",
        format!("columns={columns} map_some={}", m.is_some()),
        key,
        || case_json(t),
        t.size(),
        format!(
          "map({columns}) is {} but the stream has {} mapped chunk",
          if m.is_some() { "Some" } else { "None" },
          if any_mapped { "a" } else { "no" }
        ),
      );
    }
    if columns {
      for (i, &(l, c)) in pos.iter().enumerate() {
        let by_stream = attr4(&views[cc[i]].attr);
        let by_map = attr4(&m.as_ref().and_then(|m| m.resolve(l, c)));
        if by_stream != by_map {
          ctx.violation(
            "attribution_columns",
            format!("stream_mapped={} map_mapped={}", by_stream.is_some(), by_map.is_some()),
            None,
            || case_json(t),
            t.size(),
            format!("position {l}:{c} of {text:?}: stream says {by_stream:?}, map({columns}) says {by_map:?}"),
          );
          break;
        }
      }
    } else {
      // per output line: first mapped chunk vs first mapped segment, (file, line)
      let nlines = pos.last().map(|p| p.0).unwrap_or(0);
      for line in 1..=nlines {
        let by_stream = views
          .iter()
          .filter(|v| !v.text.is_empty())
          .flat_map(|v| {
            // a chunk may span lines only by ending in '\n'; it belongs to the line it starts on
            Some((v.gl, v.attr.clone()))
          })
          .find(|(gl, a)| *gl == line && a.is_some())
          .and_then(|(_, a)| a)
          .map(|a| (a.file, a.line));
        let by_map = m.as_ref().and_then(|m| m.resolve_line(line)).map(|a| (a.file, a.line));
        if by_stream != by_map {
          ctx.violation(
            "attribution_lines",
            format!("stream_mapped={} map_mapped={}", by_stream.is_some(), by_map.is_some()),
            None,
            || case_json(t),
            t.size(),
            format!("line {line} of {text:?}: stream says {by_stream:?}, map(false) says {by_map:?}"),
          );
          break;
        }
      }
    }
  }
  if nontrivial && state != "warm" {
    ctx.nontrivial += 1;
  }
}

// ---------------------------------------------------------------- C04

pub fn c04(ctx: &mut Ctx, t: &Term) {
  let cells = match model::cells(t) {
    Some(c) => c,
    None => return,
  };
  ctx.evaluations += 1;
  let obs = match Obs::new(t) {
    Ok(o) => o,
    Err(e) => return report_panic(ctx, t, "build", &e),
  };
  c04_round(ctx, t, &cells, &obs);
  if has_cached(t) {
    // the same object again: every CachedSource now answers from what the first round stored
    ctx.count("warm_rounds");
    c04_round(ctx, t, &cells, &obs);
  }
}

fn c04_round(ctx: &mut Ctx, t: &Term, cells: &[model::Cell], obs: &Obs) {
  let text: String = cells.iter().map(|c| c.ch).collect();
  let (pos, _) = model::positions(&text);
  let has_replace = t.any(&|x| matches!(x, Term::Replace(_, r) if !r.is_empty()));
  let n_orig = cells.iter().filter(|c| matches!(c.prov, Prov::Orig { .. })).count();
  if n_orig > 0 && cells.len() >= 3 {
    ctx.nontrivial += 1;
  }
  // columns = true
  match obs.map(true) {
    Err(e) => report_panic(ctx, t, "map(true)", &e),
    Ok(m) => {
      ctx.transitions += 1;
      let segs = m.as_ref().map(|m| m.segs.clone()).unwrap_or_default();
      ctx.outcome(&(segs.len(), n_orig));
      // (a) every mapped segment starts on a char whose origin is exactly the segment's
      if let Some(m) = &m {
        for s in &m.segs {
          let Some(a) = m.attr_of(s) else { continue };
          match pos.iter().position(|p| *p == (s.gl, s.gc)) {
            None => ctx.violation(
              "a_segment_off_text",
              String::new(),
              None,
              || case_json(t),
              t.size(),
              format!("mapped segment at {}:{} is not on a character of {text:?}", s.gl, s.gc),
            ),
            Some(i) => match &cells[i].prov {
              Prov::Orig { file, line, col, .. } => {
                if (file, line, col) != (&a.file, &a.line, &a.col) {
                  ctx.violation(
                    "a_segment_wrong_origin",
                    String::new(),
                    None,
                    || case_json(t),
                    t.size(),
                    format!(
                      "segment at {}:{} says {}:{}:{}, the character came from {file}:{line}:{col}",
                      s.gl, s.gc, a.file, a.line, a.col
                    ),
                  );
                }
              }
              Prov::Raw => ctx.violation(
                "a_segment_on_raw",
                String::new(),
                None,
                || case_json(t),
                t.size(),
                format!("mapped segment at {}:{} starts on raw text of {text:?}", s.gl, s.gc),
              ),
              Prov::Repl => {}
            },
          }
        }
      }
      // (b) coverage, (c) statement starts, raw unmapped
      for (i, c) in cells.iter().enumerate() {
        let (l, col0) = pos[i];
        let r = m.as_ref().and_then(|m| m.resolve(l, col0));
        match &c.prov {
          Prov::Raw => {
            if let Some(a) = r {
              ctx.violation(
                "b_raw_mapped",
                String::new(),
                None,
                || case_json(t),
                t.size(),
                format!("raw character {:?} at {l}:{col0} of {text:?} resolves to {}:{}:{}", c.ch, a.file, a.line, a.col),
              );
              break;
            }
          }
          Prov::Orig { file, line, col, stmt_start, lone_newline } => {
            if *lone_newline {
              continue; // reading 6.1: a '\n' alone on its original line is unmapped by design
            }
            match r {
              None => {
                ctx.violation(
                  "b_orig_uncovered",
                  String::new(),
                  None,
                  || case_json(t),
                  t.size(),
                  format!("original character {:?} ({file}:{line}:{col}) at {l}:{col0} of {text:?} is unmapped", c.ch),
                );
                break;
              }
              Some(a) => {
                if &a.file != file || a.line != *line || a.col > *col {
                  ctx.violation(
                    "b_orig_wrong_cover",
                    String::new(),
                    None,
                    || case_json(t),
                    t.size(),
                    format!(
                      "original character {:?} ({file}:{line}:{col}) at {l}:{col0} of {text:?} resolves to {}:{}:{}",
                      c.ch, a.file, a.line, a.col
                    ),
                  );
                  break;
                }
                if *stmt_start && a.col != *col {
                  ctx.violation(
                    "c_statement_start",
                    String::new(),
                    None,
                    || case_json(t),
                    t.size(),
                    format!(
                      "statement start {:?} ({file}:{line}:{col}) at {l}:{col0} of {text:?} resolves to column {}",
                      c.ch, a.col
                    ),
                  );
                  break;
                }
              }
            }
          }
          Prov::Repl => {}
        }
      }
      // (d) tables
      let mut files: Vec<(String, String)> = Vec::new();
      collect_files(t, &mut files);
      if let Some(m) = &m {
        let mut seen = std::collections::BTreeSet::new();
        for (i, s) in m.sources.iter().enumerate() {
          if !seen.insert(s.clone()) {
            ctx.violation("d_source_listed_twice", String::new(), None, || case_json(t), t.size(), format!("sources {:?}", m.sources));
          }
          let want = files.iter().find(|f| &f.0 == s).map(|f| f.1.clone());
          let got = m.contents.get(i).cloned().unwrap_or_default();
          match want {
            None => ctx.violation("d_unknown_source", String::new(), None, || case_json(t), t.size(), format!("sources {:?}", m.sources)),
            Some(w) => {
              if w != got {
                ctx.violation(
                  "d_content",
                  String::new(),
                  None,
                  || case_json(t),
                  t.size(),
                  format!("sourcesContent[{i}] for {s} is {got:?}, file content is {w:?}"),
                );
              }
            }
          }
        }
      }
    }
  }
  // (e) columns=false, trees without ReplaceSource
  if !has_replace {
    match obs.map(false) {
      Err(e) => report_panic(ctx, t, "map(false)", &e),
      Ok(m) => {
        ctx.transitions += 1;
        let nlines = pos.last().map(|p| p.0).unwrap_or(0);
        for line in 1..=nlines {
          let want = cells
            .iter()
            .zip(&pos)
            .filter(|(_, p)| p.0 == line)
            .find_map(|(c, _)| match &c.prov {
              Prov::Orig { file, line, .. } => Some((file.clone(), *line)),
              _ => None,
            });
          let got = m.as_ref().and_then(|m| m.resolve_line(line)).map(|a| (a.file, a.line));
          if want != got {
            ctx.violation(
              "e_line_attribution",
              String::new(),
              None,
              || case_json(t),
              t.size(),
              format!("line {line} of {text:?}: first original text is {want:?}, map(false) says {got:?}"),
            );
            break;
          }
        }
      }
    }
  }
  ctx.traces_validated += 1;
}

fn collect_files(t: &Term, out: &mut Vec<(String, String)>) {
  match t {
    Term::Orig(s, f) => out.push((f.clone(), s.clone())),
    Term::Concat { children, .. } => children.iter().for_each(|c| collect_files(c, out)),
    Term::Replace(i, _) | Term::Cached(i) | Term::Boxed(i) => collect_files(i, out),
    _ => {}
  }
}

// ---------------------------------------------------------------- C07 (views)

pub fn c07_views(ctx: &mut Ctx, t: &Term) {
  ctx.evaluations += 1;
  let obs = match Obs::new(t) {
    Ok(o) => o,
    Err(e) => return report_panic(ctx, t, "build", &e),
  };
  let src = obs.src.as_ref();
  let text = match &obs.text {
    Ok(s) => s.clone(),
    Err(e) => return report_panic(ctx, t, "source()", e),
  };
  let mut fail = |ctx: &mut Ctx, clause: &str, detail: String| {
    ctx.violation(clause, String::new(), None, || case_json(t), t.size(), detail);
  };
  let buffer = match observe::guarded(|| src.buffer().into_owned()) {
    Ok(b) => b,
    Err(e) => return report_panic(ctx, t, "buffer()", &e),
  };
  match observe::guarded(|| src.rope().to_string()) {
    Ok(r) => {
      if r != text {
        fail(ctx, "rope_vs_source", format!("rope() renders {r:?}, source() is {text:?}"));
      }
    }
    Err(e) => report_panic(ctx, t, "rope()", &e),
  }
  // the rope is a view of the same string in every way a rope can be read, not only when rendered
  match observe::guarded(|| rope_view_mismatch(&src.rope(), &text)) {
    Ok(None) => {}
    Ok(Some(d)) => fail(ctx, "rope_view_vs_source", d),
    Err(e) => report_panic(ctx, t, "rope() readers", &e),
  }
  // the rope asked FIRST on a fresh object (before any other observer decoded a binary leaf)
  match observe::guarded(|| {
    let fresh = t.build();
    let r = fresh.rope().to_string();
    let again = fresh.source().into_owned();
    (r, again)
  }) {
    Ok((r, again)) => {
      if r != text || again != text {
        fail(ctx, "rope_first_vs_source", format!("on a fresh object rope() renders {r:?}, then source() is {again:?}; source() asked first gives {text:?}"));
      }
    }
    Err(e) => report_panic(ctx, t, "rope() first", &e),
  }
  match observe::guarded(|| src.size()) {
    Ok(n) => {
      if n != buffer.len() {
        fail(ctx, "size_vs_buffer", format!("size()={n}, buffer().len()={}", buffer.len()));
      }
    }
    Err(e) => report_panic(ctx, t, "size()", &e),
  }
  match observe::guarded(|| {
    let mut v = Vec::new();
    src.to_writer(&mut v).map(|_| v)
  }) {
    Ok(Ok(v)) => {
      if v != buffer {
        fail(ctx, "to_writer_vs_buffer", format!("to_writer wrote {v:?}, buffer() is {buffer:?}"));
      }
    }
    Ok(Err(e)) => fail(ctx, "to_writer_error_on_vec", format!("{e}")),
    Err(e) => report_panic(ctx, t, "to_writer()", &e),
  }
  let mbytes = model::model_bytes(t);
  let mtext = model::model_text(t);
  if model::all_utf8(t) {
    if buffer != text.as_bytes() {
      fail(ctx, "buffer_vs_source_bytes", format!("buffer()={buffer:?} source()={text:?}"));
    }
  }
  if buffer != mbytes {
    fail(ctx, "buffer_vs_model", format!("buffer()={buffer:?} model={mbytes:?}"));
  }
  if text != mtext {
    fail(ctx, "source_vs_model", format!("source()={text:?} model={mtext:?}"));
  }
  if t.depth() > 0 || !model::all_utf8(t) {
    ctx.nontrivial += 1;
  }
  ctx.outcome(&(buffer.len(), text.len(), model::all_utf8(t)));
  ctx.transitions += 5;
  ctx.traces_validated += 1;
}

/// "children added later": a ConcatSource built child by child with `add`, with the content
/// observers called after every step - each answer is the concatenation of the children so far.
pub fn c07_staged_concat(ctx: &mut Ctx, t: &Term) {
  let Term::Concat { children, .. } = t else { return };
  if children.len() < 2 {
    return;
  }
  ctx.evaluations += 1;
  let r = observe::guarded(|| {
    let mut c = rspack_sources::ConcatSource::default();
    let mut want: Vec<u8> = Vec::new();
    for (i, ch) in children.iter().enumerate() {
      match ch.build_typed() {
        crate::term::Built::Concat(cc) => c.add(cc),
        crate::term::Built::Box(b) => c.add(b),
      }
      want.extend_from_slice(&model::model_bytes(ch));
      let (size, buf, text_len) = (c.size(), c.buffer().len(), c.source().len());
      let want_text = String::from_utf8_lossy(&[]).len() + children[..=i].iter().map(|x| model::model_text(x).len()).sum::<usize>();
      if size != want.len() || buf != want.len() || text_len != want_text {
        return Some(format!("after adding child {i}: size()={size}, buffer().len()={buf}, source().len()={text_len}; the children so far have {} bytes / {} text bytes", want.len(), want_text));
      }
    }
    None
  });
  match r {
    Ok(None) => {}
    Ok(Some(d)) => ctx.violation("staged_concat_views", String::new(), None, || case_json(t), t.size(), d),
    Err(e) => report_panic(ctx, t, "staged add", &e),
  }
  ctx.transitions += children.len() as u64;
}

/// Reads `r` through every positional reader and compares with the string it is meant to be.
pub fn rope_view_mismatch(r: &rspack_sources::Rope, m: &str) -> Option<String> {
  if r.len() != m.len() {
    return Some(format!("rope().len()={} but source().len()={} ({m:?})", r.len(), m.len()));
  }
  if r.is_empty() != m.is_empty() {
    return Some(format!("rope().is_empty()={} for {m:?}", r.is_empty()));
  }
  if !(*r == *m) || !(*r == m) || !(*r == rspack_sources::Rope::from(m)) {
    return Some(format!("rope() != source() by PartialEq ({m:?})"));
  }
  if r.to_bytes().as_ref() != m.as_bytes() {
    return Some(format!("rope().to_bytes() differs from {m:?}"));
  }
  for i in 0..=m.len() {
    if r.get_byte(i) != m.as_bytes().get(i).copied() {
      return Some(format!("rope().get_byte({i})={:?} in {m:?}", r.get_byte(i)));
    }
  }
  if r.char_indices().collect::<Vec<_>>() != m.char_indices().collect::<Vec<_>>() {
    return Some(format!("rope().char_indices() differs from those of {m:?}"));
  }
  let lines: Vec<String> = r.lines().map(|l| l.to_string()).collect();
  if lines != crate::rope_mc::model_lines(m) {
    return Some(format!("rope().lines()={lines:?} for {m:?}"));
  }
  let bs: Vec<usize> = (0..=m.len()).filter(|i| m.is_char_boundary(*i)).collect();
  for &a in &bs {
    for &e in &bs {
      if a <= e {
        let s = r.byte_slice(a..e);
        if s.to_string() != m[a..e] || s.len() != e - a {
          return Some(format!("rope().byte_slice({a}..{e}) is {:?} (len {}) in {m:?}", s.to_string(), s.len()));
        }
        // a slice of the slice (what an enclosing ReplaceSource does with it)
        if e - a >= 2 && m.is_char_boundary(a + 1) {
          let s2 = s.byte_slice(1..e - a);
          if s2.to_string() != m[a + 1..e] || s2.len() != e - a - 1 {
            return Some(format!("rope().byte_slice({a}..{e}).byte_slice(1..) is {:?} (len {}) in {m:?}", s2.to_string(), s2.len()));
          }
        }
      }
    }
  }
  None
}

/// Writers with faults. Returns number of fault runs.
pub fn c07_faults(ctx: &mut Ctx, t: &Term) {
  use std::io::{self, Write};
  let obs = match Obs::new(t) {
    Ok(o) => o,
    Err(e) => return report_panic(ctx, t, "build", &e),
  };
  let src = obs.src.as_ref();
  let buffer = match observe::guarded(|| src.buffer().into_owned()) {
    Ok(b) => b,
    Err(e) => return report_panic(ctx, t, "buffer()", &e),
  };
  struct FailAfter {
    limit: usize,
    got: Vec<u8>,
  }
  impl Write for FailAfter {
    fn write(&mut self, buf: &[u8]) -> io::Result<usize> {
      if self.got.len() >= self.limit {
        return Err(io::Error::new(io::ErrorKind::Other, "VERIF-FAULT"));
      }
      let n = buf.len().min(self.limit - self.got.len());
      self.got.extend_from_slice(&buf[..n]);
      Ok(n)
    }
    fn flush(&mut self) -> io::Result<()> {
      Ok(())
    }
  }
  let mut fail = |ctx: &mut Ctx, clause: &str, detail: String| {
    ctx.violation(clause, String::new(), None, || case_json(t), t.size(), detail);
  };
  // every k: accept exactly k bytes, then fail
  for k in 0..=buffer.len() {
    ctx.evaluations += 1;
    ctx.transitions += 1;
    let mut w = FailAfter { limit: k, got: vec![] };
    match observe::guarded(|| src.to_writer(&mut w)) {
      Err(e) => {
        report_panic(ctx, t, &format!("to_writer(fail after {k})"), &e);
        break;
      }
      Ok(r) => {
        if !buffer.starts_with(&w.got) {
          fail(ctx, "fault_not_prefix", format!("k={k}: wrote {:?}, buffer {buffer:?}", w.got));
        }
        match r {
          Ok(()) => {
            // only legitimate when everything fitted (k == len)
            if w.got != buffer {
              fail(ctx, "fault_swallowed", format!("k={k}: to_writer returned Ok but wrote {:?} of {buffer:?}", w.got));
            }
          }
          Err(e) => {
            if k == buffer.len() && w.got == buffer {
              // some implementations probe with an empty write; still our error
            }
            if e.to_string() != "VERIF-FAULT" && e.kind() != io::ErrorKind::WriteZero {
              fail(ctx, "fault_wrong_error", format!("k={k}: error {e:?} is not the writer's error"));
            }
            ctx.count("fault_errors_returned");
          }
        }
      }
    }
  }
  // short writes: n bytes per call
  struct Short {
    per: usize,
    got: Vec<u8>,
    interrupt_at: Option<usize>,
    calls: usize,
  }
  impl Write for Short {
    fn write(&mut self, buf: &[u8]) -> io::Result<usize> {
      self.calls += 1;
      if self.interrupt_at == Some(self.calls) {
        return Err(io::Error::new(io::ErrorKind::Interrupted, "EINTR"));
      }
      let n = buf.len().min(self.per);
      self.got.extend_from_slice(&buf[..n]);
      Ok(n)
    }
    fn flush(&mut self) -> io::Result<()> {
      Ok(())
    }
  }
  for per in 1..=3 {
    ctx.evaluations += 1;
    let mut w = Short { per, got: vec![], interrupt_at: None, calls: 0 };
    match observe::guarded(|| src.to_writer(&mut w)) {
      Err(e) => report_panic(ctx, t, &format!("to_writer(short {per})"), &e),
      Ok(r) => {
        if r.is_err() || w.got != buffer {
          fail(ctx, "short_write", format!("per={per}: result {r:?}, wrote {:?} of {buffer:?}", w.got));
        }
      }
    }
    let calls = w.calls;
    // one Interrupted at every call position
    for at in 1..=calls {
      ctx.evaluations += 1;
      let mut w = Short { per, got: vec![], interrupt_at: Some(at), calls: 0 };
      match observe::guarded(|| src.to_writer(&mut w)) {
        Err(e) => report_panic(ctx, t, &format!("to_writer(short {per}, EINTR at {at})"), &e),
        Ok(r) => {
          if r.is_err() || w.got != buffer {
            fail(ctx, "interrupted_write", format!("per={per} eintr@{at}: result {r:?}, wrote {:?} of {buffer:?}", w.got));
          }
        }
      }
    }
  }
  if buffer.len() >= 2 {
    ctx.nontrivial += 1;
  }
  ctx.traces_validated += 1;
}

// ---------------------------------------------------------------- C11

pub fn c11(ctx: &mut Ctx, t: &Term) {
  ctx.evaluations += 1;
  let obs = match Obs::new(t) {
    Ok(o) => o,
    Err(e) => return report_panic(ctx, t, "build", &e),
  };
  let text = match &obs.text {
    Ok(s) => s.clone(),
    Err(e) => return report_panic(ctx, t, "source()", e),
  };
  let (_pos, end) = model::positions(&text);
  let mut nontrivial = false;
  let rounds = if has_cached(t) { 2 } else { 1 };
  for (_round, columns) in (0..rounds).flat_map(|r| [(r, true), (r, false)]) {
    match obs.map(columns) {
      Err(e) => report_panic(ctx, t, &format!("map({columns})"), &e),
      Ok(None) => {}
      Ok(Some(m)) => {
        ctx.transitions += 1;
        if m.segs.len() >= 2 {
          nontrivial = true;
        }
        ctx.outcome(&(m.segs.len(), m.sources.len(), m.names.len()));
        // pass-through maps of SourceMapSource leaves are the user's; well-formedness is
        // demanded of maps the crate *produces*. A verbatim map that is consistent
        // (our leaves) still has to satisfy all clauses, so check regardless.
        let mut prev: Option<(u32, u32)> = None;
        for s in &m.segs {
          if s.gl < 1 {
            ctx.violation("map_line_zero", String::new(), None, || case_json(t), t.size(), format!("segment on line {}", s.gl));
          }
          if let Some(p) = prev {
            if (s.gl, s.gc) <= p {
              ctx.violation(
                "map_not_strictly_increasing",
                format!("columns={columns}"),
                None,
                || case_json(t),
                t.size(),
                format!("mappings {:?}: segment {}:{} after {}:{}", m.mappings, s.gl, s.gc, p.0, p.1),
              );
              break;
            }
          }
          prev = Some((s.gl, s.gc));
          if (s.gl, s.gc) >= end {
            ctx.violation(
              "map_segment_at_or_after_end",
              format!("columns={columns}"),
              None,
              || case_json(t),
              t.size(),
              format!("mappings {:?}: segment {}:{} but text {text:?} ends at {}:{}", m.mappings, s.gl, s.gc, end.0, end.1),
            );
            break;
          }
          if let Some((si, _, _, ni)) = s.orig {
            if si as usize >= m.sources.len() {
              ctx.violation("map_source_index", String::new(), None, || case_json(t), t.size(), format!("source index {si} of {}", m.sources.len()));
            }
            if let Some(n) = ni {
              if n as usize >= m.names.len() {
                ctx.violation(
                  "map_name_index",
                  String::new(),
                  None,
                  || case_json(t),
                  t.size(),
                  format!("name index {n} of {} in {:?}", m.names.len(), m.mappings),
                );
              }
            }
          }
        }
        if !m.mappings.bytes().all(|b| b.is_ascii_alphanumeric() || matches!(b, b'+' | b'/' | b',' | b';')) {
          ctx.violation("map_alphabet", String::new(), None, || case_json(t), t.size(), format!("mappings {:?}", m.mappings));
        }
      }
    }
    for fin in [false, true] {
      match obs.stream(columns, fin) {
        Err(e) => report_panic(ctx, t, &format!("stream({columns},{fin})"), &e),
        Ok(s) => {
          ctx.transitions += s.events.len() as u64;
          let mut src_seen: Vec<u32> = Vec::new();
          let mut name_seen: Vec<u32> = Vec::new();
          // an index names ONE table entry: announcing it again with another value makes every
          // chunk that uses it ambiguous (repeating the same value is harmless)
          let mut src_val: std::collections::BTreeMap<u32, &str> = Default::default();
          let mut name_val: std::collections::BTreeMap<u32, &str> = Default::default();
          for e in &s.events {
            match e {
              observe::Ev::Source { idx, name, .. } => {
                if !src_seen.contains(idx) {
                  src_seen.push(*idx);
                }
                if let Some(old) = src_val.insert(*idx, name.as_str()) {
                  if old != name {
                    ctx.violation("stream_index_announced_twice", format!("source columns={columns} final={fin}"), None, || case_json(t), t.size(), format!("source index {idx} announced as {old:?} and again as {name:?}"));
                  }
                }
              }
              observe::Ev::Name { idx, name } => {
                if !name_seen.contains(idx) {
                  name_seen.push(*idx);
                }
                if let Some(old) = name_val.insert(*idx, name.as_str()) {
                  if old != name {
                    ctx.violation("stream_index_announced_twice", format!("name columns={columns} final={fin}"), None, || case_json(t), t.size(), format!("name index {idx} announced as {old:?} and again as {name:?}"));
                  }
                }
              }
              observe::Ev::Chunk { orig: Some((si, _, _, ni)), .. } => {
                if !src_seen.contains(si) {
                  ctx.violation(
                    "stream_source_used_before_announced",
                    format!("columns={columns} final={fin}"),
                    None,
                    || case_json(t),
                    t.size(),
                    format!("chunk uses source index {si}, announced so far {src_seen:?}"),
                  );
                }
                if let Some(n) = ni {
                  if !name_seen.contains(n) {
                    ctx.violation(
                      "stream_name_used_before_announced",
                      format!("columns={columns} final={fin}"),
                      None,
                      || case_json(t),
                      t.size(),
                      format!("chunk uses name index {n}, announced so far {name_seen:?}"),
                    );
                  }
                }
              }
              _ => {}
            }
          }
          for (what, seen) in [("source", &src_seen), ("name", &name_seen)] {
            let mut sorted = seen.clone();
            sorted.sort();
            if sorted.iter().enumerate().any(|(i, v)| *v as usize != i) {
              ctx.violation(
                "stream_indices_not_dense",
                format!("{what} columns={columns} final={fin}"),
                None,
                || case_json(t),
                t.size(),
                format!("announced {what} indices {seen:?}"),
              );
            }
          }
        }
      }
    }
  }
  if nontrivial {
    ctx.nontrivial += 1;
  }
  ctx.traces_validated += 1;
}

// ---------------------------------------------------------------- shared: per-position attribution of a tree

/// Attribution of every character position by map(columns) [columns=true: per char;
/// false: per line (file,line)] — None on panic.
pub fn attribution_by_map(obs: &Obs, text: &str, columns: bool) -> Result<Vec<Option<(String, u32, u32, Option<String>)>>, String> {
  let (pos, _) = model::positions(text);
  let m = obs.map(columns)?;
  Ok(if columns {
    pos.iter().map(|&(l, c)| attr4(&m.as_ref().and_then(|m| m.resolve(l, c)))).collect()
  } else {
    pos
      .iter()
      .map(|&(l, _)| m.as_ref().and_then(|m| m.resolve_line(l)).map(|a| (a.file, a.line, 0, None)))
      .collect()
  })
}

pub fn attribution_by_stream(obs: &Obs, columns: bool) -> Result<Option<Vec<Option<(String, u32, u32, Option<String>)>>>, String> {
  let s = obs.stream(columns, false)?;
  let (views, cc) = stream_attrs(&s);
  if columns {
    Ok(Some(cc.iter().map(|&i| attr4(&views[i].attr)).collect()))
  } else {
    // per line: first mapped chunk on the line
    let text: String = views.iter().map(|v| v.text.as_str()).collect();
    let (pos, _) = model::positions(&text);
    Ok(Some(
      pos
        .iter()
        .map(|&(l, _)| {
          views
            .iter()
            .find(|v| v.gl == l && v.attr.is_some() && !v.text.is_empty())
            .and_then(|v| v.attr.as_ref())
            .map(|a| (a.file.clone(), a.line, 0, None))
        })
        .collect(),
    ))
  }
}

// ---------------------------------------------------------------- C13

/// Compare `variant` against `base`: same text, same attribution per position
/// by map() and by stream, both column settings. `col_may_advance`: columns of
/// mapped positions may be >= the base's (empty replacements, reading 6.2).
pub fn c13_pair(ctx: &mut Ctx, law: &str, base: &Term, variant: &Term, col_may_advance: bool) {
  ctx.evaluations += 1;
  let case = || json!({"law": law, "base": case_json(base), "variant": case_json(variant)});
  let size = base.size() + variant.size();
  let (ob, ov) = match (Obs::new(base), Obs::new(variant)) {
    (Ok(a), Ok(b)) => (a, b),
    (Err(e), _) => return report_panic(ctx, base, "build", &e),
    (_, Err(e)) => return report_panic(ctx, variant, "build", &e),
  };
  let (tb, tv) = match (&ob.text, &ov.text) {
    (Ok(a), Ok(b)) => (a.clone(), b.clone()),
    (Err(e), _) => return report_panic(ctx, base, "source()", e),
    (_, Err(e)) => return report_panic(ctx, variant, "source()", e),
  };
  if tb != tv {
    ctx.violation("law_text", law.to_string(), None, case, size, format!("{law}: text {tv:?} vs {tb:?}"));
    return;
  }
  let mut mapped = false;
  // a variant that contains a CachedSource is asked everything twice: the second answers come
  // from what the first calls stored
  let settings: &[bool] = if has_cached(variant) { &[true, false, true, false] } else { &[true, false] };
  for &columns in settings {
    let a = attribution_by_map(&ob, &tb, columns);
    let b = attribution_by_map(&ov, &tv, columns);
    ctx.transitions += 2;
    match (a, b) {
      (Ok(a), Ok(b)) => {
        if a.iter().any(|x| x.is_some()) {
          mapped = true;
        }
        ctx.outcome(&(law, &a));
        if let Some(i) = first_diff(&a, &b, col_may_advance && columns) {
          ctx.violation(
            "law_attribution_map",
            format!("{law} columns={columns}"),
            None,
            case,
            size,
            format!("{law}: position {i} of {tb:?}: base map({columns}) {:?}, variant {:?}", a[i], b[i]),
          );
        }
      }
      (Err(e), _) => report_panic(ctx, base, &format!("map({columns})"), &e),
      (_, Err(e)) => report_panic(ctx, variant, &format!("map({columns})"), &e),
    }
    let a = attribution_by_stream(&ob, columns);
    let b = attribution_by_stream(&ov, columns);
    ctx.transitions += 2;
    match (a, b) {
      (Ok(Some(a)), Ok(Some(b))) => {
        if a.len() == b.len() {
          if let Some(i) = first_diff(&a, &b, col_may_advance && columns) {
            ctx.violation(
              "law_attribution_stream",
              format!("{law} columns={columns}"),
              None,
              case,
              size,
              format!("{law}: position {i} of {tb:?}: base stream({columns}) {:?}, variant {:?}", a[i], b[i]),
            );
          }
        }
      }
      (Err(e), _) => report_panic(ctx, base, &format!("stream({columns})"), &e),
      (_, Err(e)) => report_panic(ctx, variant, &format!("stream({columns})"), &e),
      _ => {}
    }
  }
  if mapped {
    ctx.nontrivial += 1;
  }
  ctx.traces_validated += 1;
}

type A4 = Option<(String, u32, u32, Option<String>)>;

fn first_diff(a: &[A4], b: &[A4], col_may_advance: bool) -> Option<usize> {
  for i in 0..a.len().max(b.len()) {
    let (x, y) = (a.get(i), b.get(i));
    if x == y {
      continue;
    }
    if col_may_advance {
      if let (Some(Some(x)), Some(Some(y))) = (x, y) {
        // same file, line, name; column equal or advanced
        if x.0 == y.0 && x.1 == y.1 && y.2 >= x.2 && x.3 == y.3 {
          continue;
        }
      }
    }
    return Some(i);
  }
  None
}

// ---------------------------------------------------------------- C17 / C19: every method returns normally

/// Call every Source method and every streaming mode; any panic is a violation.
/// A single allocation above this size while working on a tree of a dozen characters means the
/// request was sized by a value taken from the input (an index or position of a wild map).
pub const ALLOC_LIMIT: usize = 16 << 20;

pub fn all_methods_return(ctx: &mut Ctx, t: &Term) {
  use std::hash::{Hash, Hasher};
  ctx.evaluations += 1;
  crate::reset_max_alloc();
  let src = match observe::guarded(|| t.build()) {
    Ok(s) => s,
    Err(e) => return report_panic(ctx, t, "build", &e),
  };
  let s = src.as_ref();
  let mut calls: Vec<(&str, Result<u64, String>)> = Vec::new();
  calls.push(("source", observe::guarded(|| s.source().len() as u64)));
  calls.push(("buffer", observe::guarded(|| s.buffer().len() as u64)));
  calls.push(("size", observe::guarded(|| s.size() as u64)));
  calls.push(("rope", observe::guarded(|| s.rope().to_string().len() as u64)));
  calls.push(("to_writer", observe::guarded(|| {
    let mut v = Vec::new();
    let _ = s.to_writer(&mut v);
    v.len() as u64
  })));
  for columns in [true, false] {
    calls.push((if columns { "map(true)" } else { "map(false)" }, observe::guarded(|| {
      match s.map(&rspack_sources::MapOptions::new(columns)) {
        Some(m) => m.decoded_mappings().count() as u64 + m.clone().to_json().map(|j| j.len() as u64).unwrap_or(0),
        None => 0,
      }
    })));
    for fin in [false, true] {
      calls.push(("stream", observe::stream(s, columns, fin).map(|st| st.events.len() as u64)));
    }
  }
  calls.push(("hash", observe::guarded(|| {
    let mut h = rustc_hash::FxHasher::default();
    s.update_hash(&mut h);
    h.finish()
  })));
  calls.push(("debug", observe::guarded(|| format!("{s:?}").len() as u64)));
  calls.push(("eq", observe::guarded(|| (&src == &src) as u64)));
  calls.push(("clone", observe::guarded(|| {
    let c: Box<dyn Source> = dyn_clone::clone_box(s);
    c.size() as u64
  })));
  let mut h = rustc_hash::FxHasher::default();
  for (name, r) in &calls {
    ctx.transitions += 1;
    match r {
      Ok(v) => v.hash(&mut h),
      Err(e) => report_panic(ctx, t, name, e),
    }
  }
  ctx.outcome(&h.finish());
  let big = crate::max_alloc();
  if big > ALLOC_LIMIT {
    ctx.violation(
      "allocation_sized_by_input_value",
      String::new(),
      None,
      || case_json(t),
      t.size(),
      format!("a single allocation of {big} bytes was requested while streaming / mapping a tree whose text has {} bytes: its size follows an index or position of the attached map (an index near u32::MAX would request tens of gigabytes and abort)", model::model_text(t).len()),
    );
  }
  if t.depth() > 0 || matches!(t, Term::Sms(_)) {
    ctx.nontrivial += 1;
  }
  ctx.traces_validated += 1;
}

/// Fill the cache of a CachedSource by streaming, then stream and map again (replay from the
/// cached map over the rope of the inner source), in every mode. Panics are reported.
pub fn cached_replay_twice(ctx: &mut Ctx, t: &Term) {
  ctx.evaluations += 1;
  let obs = match Obs::new(t) {
    Ok(o) => o,
    Err(e) => return report_panic(ctx, t, "build", &e),
  };
  for round in 0..2 {
    for columns in [true, false] {
      for fin in [false, true] {
        ctx.transitions += 1;
        if let Err(e) = obs.stream(columns, fin) {
          report_panic(ctx, t, &format!("cached stream({columns},{fin}) round {round}"), &e);
        }
      }
      if let Err(e) = obs.map(columns) {
        report_panic(ctx, t, &format!("cached map({columns}) round {round}"), &e);
      }
    }
  }
}
