//! Worker subprocess pool, result aggregation, evidence, known findings, replay files.

use std::{
  collections::{BTreeMap, BTreeSet},
  io::{BufRead, BufReader, Read},
  process::{Command, Stdio},
  time::Instant,
};

use serde::{Deserialize, Serialize};
use serde_json::{json, Value};

#[derive(Clone, Debug, Serialize, Deserialize)]
pub struct Violation {
  pub clause: String,
  /// failure signature: violations with equal (clause, sig) are one report
  pub sig: String,
  /// narrow classification used to match known_findings.json
  pub finding_key: Option<String>,
  pub case: Value,
  pub detail: String,
  pub size: usize,
  pub count: u64,
}

#[derive(Default, Debug, Serialize, Deserialize)]
pub struct Ctx {
  pub evaluations: u64,
  pub states: u64,
  pub transitions: u64,
  pub nontrivial: u64,
  pub traces_validated: u64,
  pub counters: BTreeMap<String, u64>,
  pub outcomes: BTreeSet<u64>,
  pub violations: Vec<Violation>,
  pub samples: Vec<Value>,
  #[serde(default)]
  pub notes: Vec<String>,
  #[serde(skip)]
  pub trace: bool,
  #[serde(skip)]
  pub case_no: u64,
}

const MAX_OUTCOMES: usize = 200_000;
const MAX_VIOL_PER_WORKER: usize = 400;

impl Ctx {
  pub fn count(&mut self, k: &str) {
    *self.counters.entry(k.to_string()).or_insert(0) += 1;
  }
  pub fn add(&mut self, k: &str, n: u64) {
    *self.counters.entry(k.to_string()).or_insert(0) += n;
  }
  pub fn outcome<H: std::hash::Hash>(&mut self, h: &H) {
    if self.outcomes.len() < MAX_OUTCOMES {
      use std::hash::Hasher;
      let mut s = rustc_hash::FxHasher::default();
      h.hash(&mut s);
      self.outcomes.insert(s.finish());
    }
  }
  pub fn sample(&mut self, every: u64, max: usize, f: impl FnOnce() -> Value) {
    if self.samples.len() < max && self.evaluations % every == 0 {
      self.samples.push(f());
    }
  }
  /// Mark the start of a case (for crash localisation).
  pub fn begin_case(&mut self, describe: impl FnOnce() -> String) {
    self.case_no += 1;
    if self.trace {
      eprintln!("TRACE-CASE {} {}", self.case_no, describe());
    }
  }
  pub fn violation(
    &mut self,
    clause: &str,
    sig: String,
    finding_key: Option<String>,
    case: impl FnOnce() -> Value,
    size: usize,
    detail: String,
  ) {
    if let Some(v) = self.violations.iter_mut().find(|v| v.clause == clause && v.sig == sig && v.finding_key == finding_key) {
      v.count += 1;
      if size < v.size {
        v.size = size;
        v.case = case();
        v.detail = detail;
      }
      return;
    }
    if self.violations.len() >= MAX_VIOL_PER_WORKER {
      self.count("violations_dropped_over_cap");
      return;
    }
    self.violations.push(Violation {
      clause: clause.to_string(),
      sig,
      finding_key,
      case: case(),
      detail,
      size,
      count: 1,
    });
  }
  pub fn merge(&mut self, o: Ctx) {
    self.evaluations += o.evaluations;
    self.states += o.states;
    self.transitions += o.transitions;
    self.nontrivial += o.nontrivial;
    self.traces_validated += o.traces_validated;
    for (k, v) in o.counters {
      *self.counters.entry(k).or_insert(0) += v;
    }
    for h in o.outcomes {
      if self.outcomes.len() < MAX_OUTCOMES * 4 {
        self.outcomes.insert(h);
      }
    }
    for v in o.violations {
      if let Some(e) = self
        .violations
        .iter_mut()
        .find(|e| e.clause == v.clause && e.sig == v.sig && e.finding_key == v.finding_key)
      {
        e.count += v.count;
        if v.size < e.size {
          e.size = v.size;
          e.case = v.case;
          e.detail = v.detail;
        }
      } else {
        self.violations.push(v);
      }
    }
    for s in o.samples {
      if self.samples.len() < 12 {
        self.samples.push(s);
      }
    }
    for n in o.notes {
      if !self.notes.contains(&n) {
        self.notes.push(n);
      }
    }
  }
}

pub struct PropMeta {
  pub id: &'static str,
  pub rule: &'static str,
  pub assumptions: &'static [&'static str],
  /// number of worker stripes for (tier)
  pub workers: fn(&str) -> usize,
  /// human description of the bounds of (tier)
  pub bounds: fn(&str) -> Value,
}

#[derive(Deserialize, Debug, Default)]
pub struct KnownFindings {
  #[serde(default)]
  pub findings: Vec<KnownFinding>,
  #[serde(default)]
  pub fixed: Vec<Value>,
}

#[derive(Deserialize, Debug)]
pub struct KnownFinding {
  pub property: String,
  pub key: String,
  pub what: String,
}

pub fn verif_root() -> std::path::PathBuf {
  if let Ok(p) = std::env::var("VERIF_ROOT") {
    return p.into();
  }
  // the binary lives in <root>/mc/target/<profile>/mc
  let exe = std::env::current_exe().unwrap();
  exe.ancestors().nth(4).map(|p| p.to_path_buf()).unwrap_or_else(|| "/verif".into())
}

pub fn load_known() -> KnownFindings {
  let p = verif_root().join("known_findings.json");
  match std::fs::read_to_string(&p) {
    Ok(s) => serde_json::from_str(&s).expect("known_findings.json must parse"),
    Err(_) => KnownFindings::default(),
  }
}

fn hash_str(s: &str) -> String {
  use std::hash::{Hash, Hasher};
  let mut h = rustc_hash::FxHasher::default();
  s.hash(&mut h);
  format!("{:016x}", h.finish())
}

/// Run the worker stripes of `prop` as subprocesses and aggregate.
/// Returns (ctx, machinery_errors).
pub fn run_workers(prop: &str, tier: &str, n: usize, extra_env: &[(&str, String)]) -> (Ctx, Vec<String>) {
  run_workers_with(prop, tier, n, extra_env, std::env::current_exe().unwrap())
}

pub fn run_workers_with(prop: &str, tier: &str, n: usize, extra_env: &[(&str, String)], exe: std::path::PathBuf) -> (Ctx, Vec<String>) {
  let mut total = Ctx::default();
  let mut errors = Vec::new();
  let max_par: usize = std::env::var("VERIF_JOBS").ok().and_then(|s| s.parse().ok()).unwrap_or(16);
  let wall_limit: u64 = std::env::var("VERIF_WORKER_WALL")
    .ok()
    .and_then(|s| s.parse().ok())
    .unwrap_or(if tier == "quick" { 600 } else { 7200 });
  let mut pending: Vec<usize> = (0..n).rev().collect();
  let mut running: Vec<(usize, std::process::Child, Instant, std::thread::JoinHandle<(String, String)>)> = Vec::new();
  let mut finished: Vec<(usize, Option<std::process::ExitStatus>, String, String)> = Vec::new();
  while !pending.is_empty() || !running.is_empty() {
    while running.len() < max_par && !pending.is_empty() {
      let k = pending.pop().unwrap();
      let mut cmd = Command::new(&exe);
      cmd
        .args(["worker", prop, tier, &k.to_string(), &n.to_string()])
        .stdout(Stdio::piped())
        .stderr(Stdio::piped());
      for (a, b) in extra_env {
        cmd.env(a, b);
      }
      let mut child = cmd.spawn().expect("spawn worker");
      let mut so = child.stdout.take().unwrap();
      let mut se = child.stderr.take().unwrap();
      let h = std::thread::spawn(move || {
        let t = std::thread::spawn(move || {
          // keep only the tail of stderr
          let mut tail: std::collections::VecDeque<String> = Default::default();
          for line in BufReader::new(&mut se).lines().map_while(Result::ok) {
            if tail.len() >= 60 {
              tail.pop_front();
            }
            tail.push_back(line);
          }
          tail.into_iter().collect::<Vec<_>>().join("\n")
        });
        let mut out = String::new();
        let _ = so.read_to_string(&mut out);
        (out, t.join().unwrap_or_default())
      });
      running.push((k, child, Instant::now(), h));
    }
    let mut i = 0;
    let mut progressed = false;
    while i < running.len() {
      let done = running[i].1.try_wait().ok().flatten();
      if let Some(st) = done {
        let (k, _c, _t, h) = running.remove(i);
        let (out, err) = h.join().unwrap_or_default();
        finished.push((k, Some(st), out, err));
        progressed = true;
      } else if running[i].2.elapsed().as_secs() > wall_limit {
        let (k, mut c, _t, h) = running.remove(i);
        let _ = c.kill();
        let _ = c.wait();
        let (out, err) = h.join().unwrap_or_default();
        finished.push((k, None, out, err));
        progressed = true;
      } else {
        i += 1;
      }
    }
    if !progressed {
      std::thread::sleep(std::time::Duration::from_millis(15));
    }
  }
  finished.sort_by_key(|f| f.0);
  for (k, st, out, err) in finished {
    let result_line = out.lines().rev().find(|l| l.starts_with("RESULT "));
    match (st, result_line) {
      (Some(s), Some(line)) if s.success() => match serde_json::from_str::<Ctx>(&line[7..]) {
        Ok(c) => total.merge(c),
        Err(e) => errors.push(format!("worker {k}: unparsable result: {e}")),
      },
      (Some(s), _) if { use std::os::unix::process::ExitStatusExt; !matches!(s.signal(), Some(4 | 6 | 7 | 8 | 11)) } => {
        // ordinary non-zero exit, or killed from outside (SIGKILL by the OOM killer, SIGTERM):
        // a failure of the harness itself, never a verdict. Only SIGILL/ABRT/BUS/FPE/SEGV
        // can come from the subject.
        errors.push(format!("worker {k} ended with {s} without a result (harness failure or killed from outside); stderr tail:\n{err}"));
      }
      (st, _) => {
        // killed by a signal (abort, segfault) or hang: locate the case
        let crash_case = err
          .lines()
          .rev()
          .find(|l| l.starts_with("CRASH-CASE "))
          .map(|l| l[11..].to_string());
        let how = match st {
          None => "hang (wall limit exceeded)".to_string(),
          Some(s) => format!("died: {s}"),
        };
        let located = crash_case.or_else(|| locate_by_trace(&exe, prop, tier, k, n, extra_env));
        match located {
          Some(case) => {
            let case_v: Value = serde_json::from_str(&case).unwrap_or(Value::String(case.clone()));
            total.violations.push(Violation {
              clause: if st.is_none() { "hang".into() } else { "abort".into() },
              sig: hash_str(&err.lines().rev().take(6).collect::<Vec<_>>().join("|")),
              finding_key: None,
              case: case_v,
              detail: format!("worker {k} {how}; stderr tail:\n{err}"),
              size: 0,
              count: 1,
            });
            // the rest of that stripe is unexplored
            errors.push(format!("worker {k} {how}; stripe incomplete after the reported case"));
          }
          None => errors.push(format!("worker {k} {how}, case not located; stderr tail:\n{err}")),
        }
      }
    }
  }
  (total, errors)
}

fn locate_by_trace(exe: &std::path::Path, prop: &str, tier: &str, k: usize, n: usize, extra_env: &[(&str, String)]) -> Option<String> {
  let mut cmd = Command::new(exe);
  cmd.args(["worker", prop, tier, &k.to_string(), &n.to_string(), "--trace"]).stdout(Stdio::null()).stderr(Stdio::piped());
  for (a, b) in extra_env {
    cmd.env(a, b);
  }
  let mut child = cmd.spawn().ok()?;
  let se = child.stderr.take()?;
  let mut last = None;
  for line in BufReader::new(se).lines().map_while(Result::ok) {
    if let Some(rest) = line.strip_prefix("TRACE-CASE ") {
      last = Some(rest.splitn(2, ' ').nth(1).unwrap_or("").to_string());
    }
  }
  let _ = child.wait();
  last
}

pub struct Outcome {
  pub exit: i32,
}

/// Classify, write replays + evidence, print lines. Returns process exit code.
pub fn finish(
  prop: &str,
  tier: &str,
  level: &str,
  rule: &str,
  assumptions: &[&str],
  bounds: Value,
  mut total: Ctx,
  errors: Vec<String>,
  started: Instant,
) -> i32 {
  let root = verif_root();
  let known = load_known();
  let seed: i64 = std::env::var("VERIF_SEED").ok().and_then(|s| s.parse().ok()).unwrap_or(0);
  let mut n_viol = 0u64;
  let mut n_known = 0u64;
  let mut known_lines = BTreeSet::new();
  total.violations.sort_by(|a, b| (a.size, &a.clause, &a.sig).cmp(&(b.size, &b.clause, &b.sig)));
  let rep_dir = root.join("replays").join(prop);
  let mut listed = Vec::new();
  for v in &total.violations {
    let is_known = v
      .finding_key
      .as_ref()
      .and_then(|k| known.findings.iter().find(|f| f.property == prop && &f.key == k));
    if let Some(f) = is_known {
      n_known += v.count;
      known_lines.insert(format!("KNOWN-FINDING: property={} {} [{}]", prop, f.what, f.key));
      continue;
    }
    n_viol += 1;
    let _ = std::fs::create_dir_all(&rep_dir);
    let body = json!({
      "property": prop, "clause": v.clause, "sig": v.sig, "finding_key": v.finding_key,
      "case": v.case, "detail": v.detail, "similar_cases": v.count,
    });
    let text = serde_json::to_string_pretty(&body).unwrap();
    let path = rep_dir.join(format!("{}.json", hash_str(&format!("{}{}{}", v.clause, v.sig, text))));
    let _ = std::fs::write(&path, text);
    if listed.len() < 40 {
      println!("VIOLATION property={} replay={}", prop, path.display());
      println!("  clause={} similar={} detail={}", v.clause, v.count, v.detail.lines().next().unwrap_or(""));
    }
    listed.push(path.display().to_string());
  }
  for l in &known_lines {
    println!("{l}");
  }
  for e in &errors {
    println!("MACHINERY-ERROR: {e}");
  }
  let wall = started.elapsed().as_secs_f64();
  if total.samples.is_empty() {
    total.samples.push(json!("no sample recorded"));
  }
  let mut coverage = json!({
    "states": total.states,
    "transitions": total.transitions,
    "traces_validated_against_impl": total.traces_validated,
    "samples": total.samples,
    "evaluations": total.evaluations,
    "distinct_nontrivial": total.nontrivial,
    "rule": rule,
    "exhaustive": errors.is_empty(),
    "bounds": bounds,
    "distinct_outcomes": total.outcomes.len(),
    "counters": total.counters,
    "known_finding_hits": n_known,
    "machinery_errors": errors,
    "notes": total.notes,
  });
  if !listed.is_empty() {
    coverage["violation_replays"] = json!(listed);
  }
  let ev = json!({
    "property_id": prop,
    "tier": tier,
    "seed": seed,
    "level": level,
    "coverage": coverage,
    "assumptions": assumptions,
    "wall_s": wall,
    "violations": n_viol,
  });
  let evdir = root.join("evidence");
  let _ = std::fs::create_dir_all(&evdir);
  std::fs::write(evdir.join(format!("{prop}.json")), serde_json::to_string_pretty(&ev).unwrap())
    .expect("write evidence");
  println!(
    "property={} tier={} states={} transitions={} evaluations={} nontrivial={} outcomes={} violations={} known={} wall={:.1}s",
    prop,
    tier,
    total.states,
    total.transitions,
    total.evaluations,
    total.nontrivial,
    total.outcomes.len(),
    n_viol,
    n_known,
    wall
  );
  if n_viol > 0 {
    1
  } else if !errors.is_empty() {
    2
  } else {
    0
  }
}
