//! E4: the mappings codec (C12) and the decoder's robustness (C17, decoder part).

use rspack_sources::{decode_mappings, encode_mappings, verif_encode_mappings, Mapping, OriginalLocation, SourceMap};
use serde_json::{json, Value};

use crate::{
  engine::Ctx,
  observe::guarded,
  refcodec::{self, Seg},
  trees::Striper,
};

pub fn to_mapping(s: &Seg) -> Mapping {
  Mapping {
    generated_line: s.gl,
    generated_column: s.gc,
    original: s.orig.map(|(si, ol, oc, ni)| OriginalLocation { source_index: si, original_line: ol, original_column: oc, name_index: ni }),
  }
}

pub fn from_mapping(m: &Mapping) -> Seg {
  Seg {
    gl: m.generated_line,
    gc: m.generated_column,
    orig: m.original.as_ref().map(|o| (o.source_index, o.original_line, o.original_column, o.name_index)),
  }
}

pub fn crate_decode(s: &str) -> Result<Vec<Seg>, String> {
  let sm = SourceMap::new(s.to_string(), Vec::<String>::new(), Vec::<String>::new(), Vec::<String>::new());
  guarded(|| decode_mappings(&sm).map(|m| from_mapping(&m)).collect::<Vec<_>>())
}

pub fn crate_encode(x: &[Seg], columns: bool) -> Result<String, String> {
  let v: Vec<Mapping> = x.iter().map(to_mapping).collect();
  guarded(|| if columns { encode_mappings(v.into_iter()) } else { verif_encode_mappings(false, v.into_iter()) })
}

fn same_attr(a: Option<&Seg>, b: Option<&Seg>) -> bool {
  a.and_then(|s| s.orig) == b.and_then(|s| s.orig)
}

fn is_subsequence(d: &[Seg], x: &[Seg]) -> bool {
  let mut it = x.iter();
  d.iter().all(|s| it.any(|y| y == s))
}

/// Round trip of one sorted sequence through the full encoder and both decoders,
/// and through the line-only encoder.
pub fn check_sequence(ctx: &mut Ctx, x: &[Seg]) {
  ctx.evaluations += 1;
  ctx.transitions += 4;
  let case = || json!({"mappings": serde_json::to_value(x).unwrap()});
  let size = x.len();
  let fail = |ctx: &mut Ctx, clause: &str, detail: String| ctx.violation(clause, String::new(), None, case, size, detail);
  let s = match crate_encode(x, true) {
    Ok(s) => s,
    Err(e) => return fail(ctx, "encode_panic", e),
  };
  if !s.bytes().all(|b| b.is_ascii_alphanumeric() || matches!(b, b'+' | b'/' | b',' | b';')) {
    fail(ctx, "alphabet", format!("{s:?}"));
  }
  let d_crate = match crate_decode(&s) {
    Ok(d) => d,
    Err(e) => return fail(ctx, "decode_panic", format!("{s:?}: {e}")),
  };
  let d_ref = match refcodec::decode(&s) {
    Ok(d) => d,
    Err(e) => return fail(ctx, "encoder_output_not_v3", format!("{s:?} is rejected by the reference decoder: {e:?}")),
  };
  if d_crate != d_ref {
    fail(ctx, "decoders_disagree", format!("{s:?}: crate {d_crate:?}, reference {d_ref:?}"));
  }
  // only redundant segments disappear, nothing is invented
  if !is_subsequence(&d_ref, x) {
    fail(ctx, "decoded_not_subsequence", format!("{s:?} decodes to {d_ref:?}, input {x:?}"));
  }
  // every position is attributed as before
  for seg in x {
    for c in [seg.gc, seg.gc + 1] {
      let a = refcodec::resolve(x, seg.gl, c);
      let b = refcodec::resolve(&d_ref, seg.gl, c);
      if !same_attr(a, b) {
        fail(ctx, "attribution_changed", format!("{s:?}: position {}:{c} was {:?}, now {:?}", seg.gl, a.and_then(|s| s.orig), b.and_then(|s| s.orig)));
        break;
      }
    }
  }
  // dropped segments are of the two documented kinds
  {
    let mut it = d_ref.iter().peekable();
    let mut active: Option<(u32, Option<(u32, u32, u32, Option<u32>)>)> = None; // (line, orig) of the previous input segment
    for seg in x {
      let kept = it.peek().map(|k| *k == seg).unwrap_or(false);
      if kept {
        it.next();
      } else {
        let act = active.filter(|(l, _)| *l == seg.gl).and_then(|(_, o)| o);
        let ok = match seg.orig {
          None => act.is_none(),
          Some((si, ol, oc, _)) => matches!(act, Some((a, b, c, _)) if (a, b, c) == (si, ol, oc)),
        };
        if !ok {
          fail(ctx, "dropped_a_needed_segment", format!("{s:?}: input segment {seg:?} is missing, active mapping was {act:?}"));
        }
      }
      active = Some((seg.gl, seg.orig));
    }
  }
  // re-encoding the decoded segments gives the same string
  match crate_encode(&d_crate, true) {
    Ok(s2) => {
      if s2 != s {
        fail(ctx, "reencode_differs", format!("{s:?} -> decode -> encode -> {s2:?}"));
      }
    }
    Err(e) => fail(ctx, "encode_panic", e),
  }
  // the line-only encoder keeps exactly the first mapped segment of each line, column 0, no name
  match crate_encode(x, false) {
    Err(e) => fail(ctx, "lines_encode_panic", e),
    Ok(ls) => {
      let want = refcodec::decode(&refcodec::encode_lines_only(x)).unwrap();
      match (crate_decode(&ls), refcodec::decode(&ls)) {
        (Ok(a), Ok(b)) => {
          if a != want || b != want {
            fail(ctx, "lines_only_encoder", format!("{ls:?} decodes to {b:?} (crate: {a:?}), expected {want:?} for input {x:?}"));
          }
        }
        (a, b) => fail(ctx, "lines_only_undecodable", format!("{ls:?}: crate {a:?} reference {b:?}")),
      }
    }
  }
  if x.len() >= 2 && x.iter().filter(|s| s.orig.is_some()).count() >= 1 {
    ctx.nontrivial += 1;
  }
  ctx.outcome(&s);
  ctx.traces_validated += 1;
}

pub const BOUNDARY: [u32; 15] = [0, 1, 15, 16, 31, 32, 511, 512, 1023, 1024, 32767, 32769, 1 << 20, (1 << 30) - 1, 1 << 30];

/// Original-location tuples mixing boundary values over all four fields.
fn orig_tuples(thorough: bool) -> Vec<Option<(u32, u32, u32, Option<u32>)>> {
  let mut v: Vec<Option<(u32, u32, u32, Option<u32>)>> = vec![None];
  let b: Vec<u32> = if thorough { BOUNDARY.to_vec() } else { vec![0, 1, 16, 31, 32, 1024, (1 << 30) - 1, 1 << 30] };
  // one field at a boundary, the others small; and all fields at the same boundary
  for &x in &b {
    v.push(Some((x, 1, 0, None)));
    v.push(Some((0, x.max(1), 0, None)));
    v.push(Some((0, 1, x, None)));
    v.push(Some((0, 1, 0, Some(x))));
    v.push(Some((x, x.max(1), x, Some(x))));
  }
  v.push(Some((1, 2, 3, Some(4))));
  v.sort();
  v.dedup();
  v
}

pub fn segment_alphabet(thorough: bool) -> Vec<(u32, u32, Option<(u32, u32, u32, Option<u32>)>)> {
  // (line advance, column, original)
  let cols: Vec<u32> = if thorough { BOUNDARY.to_vec() } else { vec![0, 1, 31, 32, 1024, 1 << 30] };
  let mut v = Vec::new();
  for adv in [0u32, 1, 3] {
    for &c in &cols {
      for o in orig_tuples(thorough) {
        v.push((adv, c, o));
      }
    }
  }
  v
}

fn build_seq(choice: &[(u32, u32, Option<(u32, u32, u32, Option<u32>)>)]) -> Option<Vec<Seg>> {
  let mut line = 1u32;
  let mut last_col: Option<u32> = None;
  let mut out = Vec::new();
  for (adv, c, o) in choice {
    if *adv > 0 {
      line += adv;
      last_col = None;
    }
    if let Some(lc) = last_col {
      if *c < lc {
        return None; // not sorted (equal positions are sorted: the later segment decides)
      }
    }
    last_col = Some(*c);
    out.push(Seg { gl: line, gc: *c, orig: *o });
  }
  Some(out)
}

pub fn c12_worker(tier: &str, k: usize, n: usize, ctx: &mut Ctx) {
  let thorough = tier == "thorough";
  let mut st = Striper::new(k, n);
  // (i) all sequences of <= 2 segments over the full alphabet, 3 over a reduced one (4 in thorough)
  let alpha = segment_alphabet(thorough);
  let reduced: Vec<_> = alpha.iter().cloned().filter(|(_, c, o)| matches!(c, 0 | 1 | 32) && match o { None => true, Some((a, b, cc, d)) => [*a, *b, *cc, d.unwrap_or(0)].iter().all(|v| matches!(v, 0 | 1 | 31 | 32 | 1073741824)) }).collect();
  crate::set_current_desc("\"c12 sequences\"".into());
  for a in &alpha {
    if st.mine() {
      if let Some(x) = build_seq(&[*a]) {
        ctx.states += 1;
        check_sequence(ctx, &x);
      }
    }
    for b in &alpha {
      if !st.mine() {
        continue;
      }
      if let Some(x) = build_seq(&[*a, *b]) {
        ctx.states += 1;
        ctx.sample(500_000, 2, || json!({"mappings": serde_json::to_value(&x).unwrap()}));
        check_sequence(ctx, &x);
      }
    }
  }
  for a in &reduced {
    for b in &reduced {
      if !st.mine() {
        continue;
      }
      for c in &reduced {
        if let Some(x) = build_seq(&[*a, *b, *c]) {
          ctx.states += 1;
          check_sequence(ctx, &x);
        }
        if thorough {
          for d in reduced.iter().step_by(3) {
            if let Some(x) = build_seq(&[*a, *b, *c, *d]) {
              ctx.states += 1;
              check_sequence(ctx, &x);
            }
          }
        }
      }
    }
  }
  // (ii) every single-field delta of magnitude < 2^20 (2^16 in the quick tier for 3 of the 5 fields), both signs
  let max_delta: u32 = 1 << 20;
  let base: u32 = 1 << 20;
  let chunk = (max_delta as usize).div_ceil(n);
  let lo = (k * chunk) as u32;
  let hi = (((k + 1) * chunk) as u32).min(max_delta);
  for d in lo..hi {
    ctx.states += 1;
    // generated column (deltas are non-negative on one line)
    delta_case(ctx, Seg { gl: 1, gc: 5, orig: Some((1, 1, 1, Some(1))) }, Seg { gl: 1, gc: 5 + d + 1, orig: Some((1, 1, 1, Some(1))) });
    for field in 0..4 {
      for sign in [1i64, -1] {
        let v = (base as i64 + sign * d as i64) as u32;
        let mut o = (base, base, base, Some(base));
        match field {
          0 => o.0 = v,
          1 => o.1 = v,
          2 => o.2 = v,
          _ => o.3 = Some(v),
        }
        delta_case(ctx, Seg { gl: 1, gc: 0, orig: Some((base, base, base, Some(base))) }, Seg { gl: 1, gc: 1, orig: Some(o) });
      }
    }
  }
  // (iii) decoder against the reference decoder on all strings of the v3 grammar (curated spellings)
  for_each_grammar_string(thorough, &mut |s| {
    if st.mine() {
      ctx.states += 1;
      grammar_case(ctx, s);
    }
  });
}

fn delta_case(ctx: &mut Ctx, a: Seg, b: Seg) {
  ctx.evaluations += 1;
  ctx.transitions += 2;
  let x = [a, b];
  let r = guarded(|| {
    let s = encode_mappings(x.iter().map(to_mapping));
    let sm = SourceMap::new(s.clone(), Vec::<String>::new(), Vec::<String>::new(), Vec::<String>::new());
    let d: Vec<Seg> = decode_mappings(&sm).map(|m| from_mapping(&m)).collect();
    (s, d)
  });
  match r {
    Err(e) => ctx.violation("delta_panic", String::new(), None, || json!({"mappings": serde_json::to_value(&x).unwrap()}), 2, e),
    Ok((s, d)) => {
      let dr = refcodec::decode(&s);
      if d != x || dr.as_ref().ok() != Some(&x.to_vec()) {
        ctx.violation(
          "delta_roundtrip",
          String::new(),
          None,
          || json!({"mappings": serde_json::to_value(&x).unwrap()}),
          2,
          format!("{x:?} -> {s:?} -> crate {d:?}, reference {dr:?}"),
        );
      }
      ctx.traces_validated += 1;
    }
  }
}

/// Field spellings: plain digits, redundant continuation digits, two-digit values.
const FIELD_FULL: [&str; 9] = ["A", "C", "D", "E", "gA", "gC", "hA", "/A", "ggA"];
const FIELD_SMALL: [&str; 3] = ["A", "C", "gA"];

fn segments(fields: &[&str], full_at_most_one: bool) -> Vec<String> {
  let mut out: Vec<String> = Vec::new();
  for f in FIELD_FULL {
    out.push(f.to_string());
  }
  for n in [4usize, 5] {
    let total = fields.len().pow(n as u32);
    for code in 0..total {
      let mut c = code;
      let mut s = String::new();
      for _ in 0..n {
        s.push_str(fields[c % fields.len()]);
        c /= fields.len();
      }
      out.push(s);
    }
    if full_at_most_one {
      // one field with an extended spelling, the others "A"/"C"
      for pos in 0..n {
        for f in FIELD_FULL.iter().skip(2) {
          for other in ["A", "C"] {
            let mut s = String::new();
            for i in 0..n {
              s.push_str(if i == pos { f } else { other });
            }
            out.push(s);
          }
        }
      }
    }
  }
  out.sort();
  out.dedup();
  out
}

/// Every string of the (curated) v3 grammar, streamed.
pub fn for_each_grammar_string(thorough: bool, f: &mut dyn FnMut(&str)) {
  let seg_full = segments(&["A", "C", "D"], true);
  // three-segment strings over a smaller segment set
  let seg_small: Vec<String> = if thorough {
    let mut v = segments(&["A", "C"], false);
    v.extend(segments(&["A", "C", "D"], false).into_iter().filter(|s| s.len() == 4));
    v.sort();
    v.dedup();
    v
  } else {
    segments(&["A", "C"], false)
  };
  let seps = [",", ";", ";;", ",,", ";,", ",;"];
  for s in ["", ";", ";;;", ","] {
    f(s);
  }
  let mut buf = String::new();
  for a in &seg_full {
    f(a);
    buf.clear();
    buf.push(';');
    buf.push_str(a);
    f(&buf);
    buf.clear();
    buf.push_str(a);
    buf.push(';');
    f(&buf);
    for sep in seps {
      for b in &seg_full {
        buf.clear();
        buf.push_str(a);
        buf.push_str(sep);
        buf.push_str(b);
        f(&buf);
      }
    }
  }
  for a in &seg_small {
    for s1 in seps {
      for b in &seg_small {
        for s2 in seps {
          for c in &seg_small {
            buf.clear();
            buf.push_str(a);
            buf.push_str(s1);
            buf.push_str(b);
            buf.push_str(s2);
            buf.push_str(c);
            f(&buf);
          }
        }
      }
    }
  }
}

pub fn grammar_count(thorough: bool) -> u64 {
  let mut n = 0u64;
  for_each_grammar_string(thorough, &mut |_| n += 1);
  n
}

fn grammar_case(ctx: &mut Ctx, s: &str) {
  ctx.transitions += 2;
  let want = match refcodec::decode(s) {
    Ok(w) => w,
    Err(refcodec::DecodeError::Negative) => {
      ctx.count("grammar_strings_with_negative_running_value_skipped");
      return;
    }
    Err(e) => {
      ctx.count(&format!("grammar_generator_error_{e:?}"));
      return;
    }
  };
  ctx.evaluations += 1;
  match crate_decode(s) {
    Err(e) => ctx.violation("decode_panic", String::new(), None, || json!({"string": s}), s.len(), format!("{s:?}: {e}")),
    Ok(got) => {
      if got != want {
        ctx.violation("decoder_vs_format", String::new(), None, || json!({"string": s}), s.len(), format!("{s:?}: crate decodes {got:?}, the format defines {want:?}"));
      }
      if want.len() >= 2 {
        ctx.nontrivial += 1;
      }
      ctx.outcome(&want);
      ctx.traces_validated += 1;
    }
  }
}

pub fn c12_bounds(tier: &str) -> Value {
  let thorough = tier == "thorough";
  json!({
    "engine": "E4 codec",
    "segment_alphabet": segment_alphabet(thorough).len(),
    "sequences": "all sorted sequences of <= 2 segments over the alphabet (line advance {0,1,3} x column boundary x original-location tuple incl. unmapped); 3 (thorough: also 4) segments over the reduced alphabet",
    "boundary_values": BOUNDARY,
    "single_field_deltas": "every delta of magnitude 0..2^20 in each of the five fields, both signs (column: positive only)",
    "grammar_strings": grammar_count(thorough),
    "grammar": "1-/4-/5-field segments with fields from {A,C,D} plus one extended spelling (E, gA, gC, hA, /A, ggA); separators , ; ;; ,, ;, ,; ; up to 3 segments; strings whose running values go negative are outside the domain and skipped (counted)",
  })
}

// --------------------------------------------------------------------------- C17 decoder part

pub const JUNK: [u8; 9] = [b'A', b'C', b'D', b'g', b'/', b'9', b',', b';', b'!'];

pub const JUNK_WIDE: [&str; 13] = ["A", "C", "D", "g", "/", ",", ";", "!", "é", "\u{ff}", "😀", "\0", "\u{7f}"];

pub fn c17_decode_worker(tier: &str, k: usize, n: usize, ctx: &mut Ctx) {
  let max_len = if tier == "thorough" { 8 } else { 6 };
  // all strings up to max_len over JUNK: enumerate by (length, index), stripe on index
  let mut buf = Vec::with_capacity(max_len);
  for len in 0..=max_len {
    let total = JUNK.len().pow(len as u32);
    let mut idx = k;
    while idx < total {
      buf.clear();
      let mut c = idx;
      for _ in 0..len {
        buf.push(JUNK[c % JUNK.len()]);
        c /= JUNK.len();
      }
      let s = std::str::from_utf8(&buf).unwrap();
      if idx % 4096 == k {
        crate::set_current_desc(json!({"string": s}).to_string());
      }
      decode_no_panic(ctx, s);
      idx += n;
    }
  }
  // the same over a wider symbol set: strings are UTF-8, so every byte value >= 0x80 can occur
  // (lead and continuation bytes of 2-, 3- and 4-byte characters), and NUL / DEL
  {
    let max2 = if tier == "thorough" { 6 } else { 5 };
    let mut s = String::with_capacity(max2 * 4);
    for len in 1..=max2 {
      let total = JUNK_WIDE.len().pow(len as u32);
      let mut idx = k;
      while idx < total {
        s.clear();
        let mut c = idx;
        let mut wide = false;
        for _ in 0..len {
          let sym = JUNK_WIDE[c % JUNK_WIDE.len()];
          wide |= !sym.is_ascii() || sym == "\0" || sym == "\u{7f}";
          s.push_str(sym);
          c /= JUNK_WIDE.len();
        }
        // strings without any of the new symbols were already run above
        if wide {
          if idx % 4096 == k {
            crate::set_current_desc(json!({"string": s}).to_string());
          }
          decode_no_panic(ctx, &s);
          ctx.count("strings_with_non_ascii_or_control_symbols");
        }
        idx += n;
      }
    }
  }
  // every single character of U+0000..U+07FF (all ASCII bytes, all 2-byte sequences) and samples of
  // 3-/4-byte ones, alone and inside a segment
  if k == 1 % n {
    let mut chars: Vec<char> = (0u32..0x800).filter_map(char::from_u32).collect();
    chars.extend(['\u{800}', '\u{ffff}', '\u{10000}', '\u{10ffff}', '€', '😀']);
    for c in chars {
      for pat in ["{}", "A{}", "{}A", "AA{}A", "g{}", "AAAA,{}", "AAAA;{}AAA"] {
        let s = pat.replace("{}", &c.to_string());
        crate::set_current_desc(json!({"string": s}).to_string());
        decode_no_panic(ctx, &s);
        ctx.count("single_character_sweep_strings");
      }
    }
  }
  // continuation runs of every length 1..=40 in each field position, each terminator
  if k == 0 {
    for field in 0..5 {
      for run in 1..=40 {
        for cont in ['g', '/', '9', 'h'] {
          // (a first digit with sign bit 0 makes the run a huge POSITIVE value; terminators with all
          // value bits set; an earlier segment makes every running field non-zero)
          for first in ["", "+", "8"] {
            for term in ["A", "D", "/", ",", ";", "", "!A", "P", "f", "H"] {
              for prev in ["", "CCCCC,"] {
                let mut s = String::from(prev);
                for _ in 0..field {
                  s.push('C');
                }
                s.push_str(first);
                for _ in 0..run {
                  s.push(cont);
                }
                s.push_str(term);
                s.push_str(",AAAA;C");
                crate::set_current_desc(json!({"string": s}).to_string());
                decode_no_panic(ctx, &s);
                ctx.count("continuation_run_strings");
              }
            }
          }
        }
      }
    }
    // huge deltas: values that overflow u32 when accumulated
    for s in ["+/////H", "+/////H,+/////H", "AAAA,+/////HAAA", "D", "DDDD", "AADA", "AAAD,AAAD", "AAAAD", "/////////////B", "AA+///////////PA", "CAAA,+///////////PAAA", "+///////////P", "+////////////P", "+///////////f,+///////////f"] {
      decode_no_panic(ctx, s);
    }
  }
}

fn decode_no_panic(ctx: &mut Ctx, s: &str) {
  ctx.evaluations += 1;
  ctx.states += 1;
  ctx.transitions += 1;
  match crate_decode(s) {
    Ok(d) => {
      if d.len() >= 2 {
        ctx.nontrivial += 1;
      }
      if ctx.outcomes.len() < 50_000 {
        ctx.outcome(&d);
      }
    }
    Err(e) => {
      let key = crate::findings::classify_decode_panic(s, &e);
      ctx.violation("decode_mappings_panic", e.rsplit('@').next().unwrap_or("").trim().to_string(), key, || json!({"string": s}), s.len(), format!("decode_mappings({s:?}) panicked: {e}"));
    }
  }
}
