//! The term language: construction programs for source trees, and their
//! realisation as real rspack_sources objects.

use std::{
  borrow::Cow,
  hash::{Hash, Hasher},
  sync::Arc,
};

use rspack_sources::{
  stream_chunks::{
    stream_chunks_default, GeneratedInfo, OnChunk, OnName, OnSource, StreamChunks,
  },
  BoxSource, CachedSource, ConcatSource, MapOptions, Mapping, OriginalLocation,
  OriginalSource, RawBufferSource, RawSource, RawStringSource, ReplaceSource,
  ReplacementEnforce, Rope, Source, SourceExt, SourceMap, SourceMapSource,
  SourceMapSourceOptions,
};
use serde::{Deserialize, Serialize};

use crate::refcodec::{self, Seg};

#[derive(Clone, Debug, PartialEq, Eq, Hash, PartialOrd, Ord, Serialize, Deserialize)]
pub struct MapSpec {
  pub segs: Vec<Seg>,
  pub sources: Vec<String>,
  /// None = no sourcesContent at all
  pub contents: Option<Vec<String>>,
  pub names: Vec<String>,
  pub root: Option<String>,
  pub file: Option<String>,
  /// When set, used verbatim instead of encoding `segs`.
  pub raw_mappings: Option<String>,
  #[serde(default)]
  pub debug_id: Option<String>,
}

thread_local! {
  static SHARE_MAP_BUFFERS: std::cell::Cell<bool> = const { std::cell::Cell::new(false) };
  #[allow(clippy::type_complexity)]
  static MAP_POOL: std::cell::RefCell<std::collections::HashMap<(String, Vec<String>, Option<Vec<String>>, Vec<String>), SourceMap>> = std::cell::RefCell::new(Default::default());
}

/// Runs `f` with source maps of equal mappings/sources/contents/names built as clones of one base
/// map (shared buffers), differing only through the setters.
pub fn with_shared_map_buffers<R>(f: impl FnOnce() -> R) -> R {
  let old = SHARE_MAP_BUFFERS.with(|c| c.replace(true));
  let r = f();
  SHARE_MAP_BUFFERS.with(|c| c.set(old));
  r
}

impl MapSpec {
  pub fn new(segs: Vec<Seg>, sources: &[&str], contents: Option<&[&str]>, names: &[&str]) -> Self {
    MapSpec {
      segs,
      sources: sources.iter().map(|s| s.to_string()).collect(),
      contents: contents.map(|c| c.iter().map(|s| s.to_string()).collect()),
      names: names.iter().map(|s| s.to_string()).collect(),
      root: None,
      file: None,
      raw_mappings: None,
      debug_id: None,
    }
  }
  pub fn mappings(&self) -> String {
    match &self.raw_mappings {
      Some(m) => m.clone(),
      None => refcodec::encode_all(&self.segs),
    }
  }
  pub fn to_source_map(&self) -> SourceMap {
    if SHARE_MAP_BUFFERS.with(|c| c.get()) {
      // the way a bundler stamps a loader's map: clone one base map (the Arc buffers stay shared
      // between all maps made from it) and set file / sourceRoot / debugId on the clone
      let key = (self.mappings(), self.sources.clone(), self.contents.clone(), self.names.clone());
      let mut m = MAP_POOL.with(|p| {
        let mut p = p.borrow_mut();
        if p.len() > 256 {
          p.clear();
        }
        p.entry(key).or_insert_with(|| SourceMap::new(self.mappings(), self.sources.clone(), self.contents.clone().unwrap_or_default(), self.names.clone())).clone()
      });
      m.set_source_root(self.root.clone());
      m.set_file(self.file.clone());
      m.set_debug_id(self.debug_id.clone());
      return m;
    }
    let mut m = SourceMap::new(
      self.mappings(),
      self.sources.clone(),
      self.contents.clone().unwrap_or_default(),
      self.names.clone(),
    );
    if let Some(r) = &self.root {
      m.set_source_root(Some(r.clone()));
    }
    if let Some(f) = &self.file {
      m.set_file(Some(f.clone()));
    }
    if let Some(d) = &self.debug_id {
      m.set_debug_id(Some(d.clone()));
    }
    m
  }
  /// file name with sourceRoot applied the way the documentation describes
  pub fn rooted(&self, i: usize) -> Option<String> {
    self.sources.get(i).map(|s| apply_root(self.root.as_deref(), s))
  }
}

pub fn apply_root(root: Option<&str>, s: &str) -> String {
  match root {
    None | Some("") => s.to_string(),
    Some(r) if r.ends_with('/') => format!("{r}{s}"),
    Some(r) => format!("{r}/{s}"),
  }
}

#[derive(Clone, Debug, PartialEq, Eq, Hash, PartialOrd, Ord, Serialize, Deserialize)]
pub struct SmsSpec {
  pub value: String,
  pub name: String,
  pub map: MapSpec,
  pub original_source: Option<String>,
  pub inner: Option<MapSpec>,
  pub remove: bool,
}

pub type O4 = (u32, u32, u32, Option<u32>);

#[derive(Clone, Debug, PartialEq, Eq, Hash, PartialOrd, Ord, Serialize, Deserialize)]
pub struct ScriptSpec {
  /// chunk text + attribution (source idx, line, col, name idx)
  pub pieces: Vec<(String, Option<O4>)>,
  pub sources: Vec<(String, Option<String>)>,
  pub names: Vec<String>,
  /// announce sources/names right before first use instead of up-front
  pub lazy: bool,
}

impl ScriptSpec {
  pub fn text(&self) -> String {
    self.pieces.iter().map(|p| p.0.as_str()).collect()
  }
}

#[derive(Clone, Debug, PartialEq, Eq, Hash, PartialOrd, Ord, Serialize, Deserialize)]
pub struct DefaultSpec {
  pub text: String,
  pub map: Option<MapSpec>,
}

#[derive(Clone, Debug, PartialEq, Eq, Hash, PartialOrd, Ord, Serialize, Deserialize)]
pub struct Repl {
  pub start: u32,
  pub end: u32,
  pub content: String,
  pub name: Option<String>,
  /// 0 = Pre, 1 = Normal, 2 = Post
  pub enforce: u8,
}

impl Repl {
  pub fn new(start: u32, end: u32, content: &str) -> Self {
    Repl { start, end, content: content.to_string(), name: None, enforce: 1 }
  }
  pub fn named(mut self, n: &str) -> Self {
    self.name = Some(n.to_string());
    self
  }
  pub fn enf(mut self, e: u8) -> Self {
    self.enforce = e;
    self
  }
}

pub fn enforce_of(e: u8) -> ReplacementEnforce {
  match e {
    0 => ReplacementEnforce::Pre,
    1 => ReplacementEnforce::Normal,
    _ => ReplacementEnforce::Post,
  }
}

#[derive(Clone, Debug, PartialEq, Eq, Hash, PartialOrd, Ord, Serialize, Deserialize)]
pub enum Term {
  Raw(String),
  RawBuf(Vec<u8>),
  RawStr(String),
  RawBufS(Vec<u8>),
  Orig(String, String),
  Sms(Box<SmsSpec>),
  Script(Box<ScriptSpec>),
  Default(Box<DefaultSpec>),
  /// typed: children that are Concat terms are handed over as `ConcatSource`
  /// values (flattened by the crate); otherwise boxed first. add: built with
  /// `ConcatSource::default()` + `add` per child instead of `new`.
  Concat { children: Vec<Term>, typed: bool, add: bool },
  Replace(Box<Term>, Vec<Repl>),
  Cached(Box<Term>),
  Boxed(Box<Term>),
}

impl Term {
  pub fn raw(s: &str) -> Term {
    Term::Raw(s.to_string())
  }
  pub fn orig(s: &str, f: &str) -> Term {
    Term::Orig(s.to_string(), f.to_string())
  }
  pub fn concat(children: Vec<Term>) -> Term {
    Term::Concat { children, typed: false, add: false }
  }
  pub fn replace(inner: Term, r: Vec<Repl>) -> Term {
    Term::Replace(Box::new(inner), r)
  }
  pub fn cached(inner: Term) -> Term {
    Term::Cached(Box::new(inner))
  }
  pub fn boxed(inner: Term) -> Term {
    Term::Boxed(Box::new(inner))
  }
  pub fn sms(value: &str, name: &str, map: MapSpec) -> Term {
    Term::Sms(Box::new(SmsSpec {
      value: value.to_string(),
      name: name.to_string(),
      map,
      original_source: None,
      inner: None,
      remove: false,
    }))
  }

  pub fn size(&self) -> usize {
    match self {
      Term::Concat { children, .. } => 1 + children.iter().map(|c| c.size()).sum::<usize>(),
      Term::Replace(i, r) => 1 + i.size() + r.len(),
      Term::Cached(i) | Term::Boxed(i) => 1 + i.size(),
      _ => 1,
    }
  }

  pub fn depth(&self) -> usize {
    match self {
      Term::Concat { children, .. } => 1 + children.iter().map(|c| c.depth()).max().unwrap_or(0),
      Term::Replace(i, _) | Term::Cached(i) | Term::Boxed(i) => 1 + i.depth(),
      _ => 0,
    }
  }

  /// the same tree without any CachedSource wrapper
  pub fn strip_cached(&self) -> Term {
    match self {
      Term::Cached(i) => i.strip_cached(),
      Term::Boxed(i) => Term::Boxed(Box::new(i.strip_cached())),
      Term::Replace(i, r) => Term::Replace(Box::new(i.strip_cached()), r.clone()),
      Term::Concat { children, typed, add } => Term::Concat { children: children.iter().map(|c| c.strip_cached()).collect(), typed: *typed, add: *add },
      other => other.clone(),
    }
  }

  pub fn any(&self, f: &dyn Fn(&Term) -> bool) -> bool {
    if f(self) {
      return true;
    }
    match self {
      Term::Concat { children, .. } => children.iter().any(|c| c.any(f)),
      Term::Replace(i, _) | Term::Cached(i) | Term::Boxed(i) => i.any(f),
      _ => false,
    }
  }

  /// Strip wrappers that are documented to be transparent for map():
  /// Cached, Boxed, Replace without replacements, single-child Concat.
  pub fn strip_transparent(&self) -> &Term {
    match self {
      Term::Cached(i) | Term::Boxed(i) => i.strip_transparent(),
      Term::Replace(i, r) if r.is_empty() => i.strip_transparent(),
      _ => self,
    }
  }

  pub fn build(&self) -> BoxSource {
    match self.build_typed() {
      Built::Concat(c) => c.boxed(),
      Built::Box(b) => b,
    }
  }

  pub fn build_typed(&self) -> Built {
    match self {
      Term::Raw(s) => Built::Box(RawSource::from(s.clone()).boxed()),
      Term::RawBuf(b) => Built::Box(RawSource::from(b.clone()).boxed()),
      Term::RawStr(s) => Built::Box(RawStringSource::from(s.clone()).boxed()),
      Term::RawBufS(b) => Built::Box(RawBufferSource::from(b.clone()).boxed()),
      Term::Orig(s, f) => Built::Box(OriginalSource::new(s.clone(), f.clone()).boxed()),
      Term::Sms(spec) => Built::Box(build_sms(spec).boxed()),
      Term::Script(spec) => Built::Box(ScriptSource::new((**spec).clone()).boxed()),
      Term::Default(spec) => Built::Box(DefaultSource::new((**spec).clone()).boxed()),
      Term::Concat { children, typed, add } => {
        let built: Vec<Built> = children.iter().map(|c| c.build_typed()).collect();
        if *add {
          let mut c = ConcatSource::default();
          for (b, term) in built.into_iter().zip(children) {
            match b {
              Built::Concat(cc) if *typed => c.add(cc),
              Built::Concat(cc) => c.add(cc.boxed()),
              // typed + add: leaves are handed to the generic `add::<S>` as values of their own type
              Built::Box(bx) if *typed => match term {
                Term::Raw(s) => c.add(RawSource::from(s.clone())),
                Term::RawBuf(v) => c.add(RawSource::from(v.clone())),
                Term::RawStr(s) => c.add(RawStringSource::from(s.clone())),
                Term::RawBufS(v) => c.add(RawBufferSource::from(v.clone())),
                Term::Orig(s, f) => c.add(OriginalSource::new(s.clone(), f.clone())),
                Term::Sms(spec) => c.add(build_sms(spec)),
                Term::Cached(inner) => c.add(CachedSource::new(inner.build())),
                _ => c.add(bx),
              },
              Built::Box(bx) => c.add(bx),
            }
          }
          Built::Concat(c)
        } else if *typed && !built.is_empty() && built.iter().all(|b| matches!(b, Built::Concat(_))) {
          let v: Vec<ConcatSource> = built
            .into_iter()
            .map(|b| match b {
              Built::Concat(c) => c,
              _ => unreachable!(),
            })
            .collect();
          Built::Concat(ConcatSource::new(v))
        } else if *typed {
          // mixed: first child through new, rest through add (typed)
          let mut c = ConcatSource::new(Vec::<BoxSource>::new());
          for b in built {
            match b {
              Built::Concat(cc) => c.add(cc),
              Built::Box(bx) => c.add(bx),
            }
          }
          Built::Concat(c)
        } else {
          let v: Vec<BoxSource> = built.into_iter().map(|b| b.into_box()).collect();
          Built::Concat(ConcatSource::new(v))
        }
      }
      Term::Replace(inner, repls) => {
        let mut r = ReplaceSource::new(inner.build());
        for x in repls {
          apply_repl(&mut r, x);
        }
        Built::Box(r.boxed())
      }
      Term::Cached(inner) => Built::Box(CachedSource::new(inner.build()).boxed()),
      Term::Boxed(inner) => {
        // an extra Arc layer: BoxSource itself used as a Source
        let b: BoxSource = inner.build();
        Built::Box(Arc::new(b) as BoxSource)
      }
    }
  }
}

pub fn apply_repl<T: Source>(r: &mut ReplaceSource<T>, x: &Repl) {
  // use the whole public mutator surface, selected by the shape of the entry
  match (x.enforce, x.start == x.end) {
    (1, true) => r.insert(x.start, &x.content, x.name.as_deref()),
    (1, false) => r.replace(x.start, x.end, &x.content, x.name.as_deref()),
    (e, true) => r.insert_with_enforce(x.start, &x.content, x.name.as_deref(), enforce_of(e)),
    (e, false) => {
      r.replace_with_enforce(x.start, x.end, &x.content, x.name.as_deref(), enforce_of(e))
    }
  }
}

pub fn build_sms(spec: &SmsSpec) -> SourceMapSource {
  SourceMapSource::new(SourceMapSourceOptions {
    value: spec.value.clone(),
    name: spec.name.clone(),
    source_map: spec.map.to_source_map(),
    original_source: spec.original_source.clone(),
    inner_source_map: spec.inner.as_ref().map(|m| m.to_source_map()),
    remove_original_source: spec.remove,
  })
}

pub enum Built {
  Concat(ConcatSource),
  Box(BoxSource),
}

impl Built {
  pub fn into_box(self) -> BoxSource {
    match self {
      Built::Concat(c) => c.boxed(),
      Built::Box(b) => b,
    }
  }
}

// ---------------------------------------------------------------------------
// User-defined sources
// ---------------------------------------------------------------------------

/// A user-defined source whose chunk stream is scripted: any split of its text
/// with any attribution per chunk; announces tables eagerly or lazily.
#[derive(Clone, Debug, PartialEq, Eq, Hash)]
pub struct ScriptSource {
  spec: ScriptSpec,
  text: String,
}

thread_local! {
  /// Called from inside user-source callbacks (scheduler yield in C18).
  pub static USER_YIELD: std::cell::Cell<bool> = const { std::cell::Cell::new(false) };
}

fn user_yield(site: &'static str, obj: usize) {
  if USER_YIELD.with(|y| y.get()) {
    rspack_sources::verif::point(rspack_sources::verif::Point::Access { site, obj });
  }
}

impl ScriptSource {
  pub fn new(spec: ScriptSpec) -> Self {
    let text = spec.text();
    ScriptSource { spec, text }
  }

  /// (line, col) positions at which each piece starts, and the end position
  fn positions(&self) -> (Vec<(u32, u32)>, (u32, u32)) {
    let mut line = 1u32;
    let mut col = 0u32;
    let mut out = Vec::new();
    for (t, _) in &self.spec.pieces {
      out.push((line, col));
      for ch in t.chars() {
        if ch == '\n' {
          line += 1;
          col = 0;
        } else {
          col += 1;
        }
      }
    }
    (out, (line, col))
  }

  fn segs(&self) -> Vec<Seg> {
    let (pos, _) = self.positions();
    self
      .spec
      .pieces
      .iter()
      .zip(pos)
      .filter(|((t, _), _)| !t.is_empty())
      .map(|((_, o), (gl, gc))| Seg { gl, gc, orig: *o })
      .collect()
  }
}

impl StreamChunks for ScriptSource {
  fn stream_chunks<'a>(
    &'a self,
    options: &MapOptions,
    on_chunk: OnChunk<'_, 'a>,
    on_source: OnSource<'_, 'a>,
    on_name: OnName<'_, 'a>,
  ) -> GeneratedInfo {
    let fin = options.verif_final_source();
    let me = self as *const _ as usize;
    let mut src_done = vec![false; self.spec.sources.len()];
    let mut name_done = vec![false; self.spec.names.len()];
    if !self.spec.lazy {
      for (i, (n, c)) in self.spec.sources.iter().enumerate() {
        on_source(i as u32, Cow::Borrowed(n.as_str()), c.as_ref().map(Rope::from));
        src_done[i] = true;
      }
      for (i, n) in self.spec.names.iter().enumerate() {
        on_name(i as u32, Cow::Borrowed(n.as_str()));
        name_done[i] = true;
      }
    }
    let (pos, end) = self.positions();
    for ((t, o), (gl, gc)) in self.spec.pieces.iter().zip(pos) {
      if t.is_empty() {
        continue;
      }
      user_yield("user.chunk", me);
      let mut orig = None;
      if let Some((si, ol, oc, ni)) = o {
        // lazy announcement stays dense: everything up to the needed index
        for sidx in 0..=(*si as usize).min(src_done.len().saturating_sub(1)) {
          if sidx < src_done.len() && !src_done[sidx] {
            let (n, c) = &self.spec.sources[sidx];
            on_source(sidx as u32, Cow::Borrowed(n.as_str()), c.as_ref().map(Rope::from));
            src_done[sidx] = true;
          }
        }
        let mut name_index = None;
        if let Some(ni) = ni {
          for nidx in 0..=(*ni as usize).min(name_done.len().saturating_sub(1)) {
            if nidx < name_done.len() && !name_done[nidx] && options.columns {
              on_name(nidx as u32, Cow::Borrowed(self.spec.names[nidx].as_str()));
              name_done[nidx] = true;
            }
          }
          if options.columns {
            name_index = Some(*ni);
          }
        }
        orig = Some(OriginalLocation {
          source_index: *si,
          original_line: *ol,
          original_column: if options.columns { *oc } else { 0 },
          name_index,
        });
      }
      on_chunk(
        (!fin).then(|| Rope::from(t.as_str())),
        Mapping { generated_line: gl, generated_column: gc, original: orig },
      );
    }
    GeneratedInfo { generated_line: end.0, generated_column: end.1 }
  }
}

impl Source for ScriptSource {
  fn source(&self) -> Cow<str> {
    Cow::Borrowed(&self.text)
  }
  fn rope(&self) -> Rope<'_> {
    Rope::from(&self.text)
  }
  fn buffer(&self) -> Cow<[u8]> {
    Cow::Borrowed(self.text.as_bytes())
  }
  fn size(&self) -> usize {
    self.text.len()
  }
  fn map(&self, options: &MapOptions) -> Option<SourceMap> {
    // user code: built from the same script with the harness' own encoders
    let mut segs = self.segs();
    if !segs.iter().any(|s| s.orig.is_some()) {
      return None;
    }
    let mappings = if options.columns {
      // drop leading/irrelevant unmapped segments like any tidy producer would
      let mut out: Vec<Seg> = Vec::new();
      let mut active_line = 0;
      for s in segs.drain(..) {
        if s.orig.is_some() {
          active_line = s.gl;
          out.push(s);
        } else if active_line == s.gl {
          active_line = 0;
          out.push(s);
        }
      }
      refcodec::encode_all(&out)
    } else {
      refcodec::encode_lines_only(&segs)
    };
    Some(SourceMap::new(
      mappings,
      self.spec.sources.iter().map(|s| s.0.clone()).collect::<Vec<_>>(),
      if self.spec.sources.iter().any(|s| s.1.is_some()) {
        self.spec.sources.iter().map(|s| s.1.clone().unwrap_or_default()).collect::<Vec<_>>()
      } else {
        vec![]
      },
      self.spec.names.clone(),
    ))
  }
  fn to_writer(&self, writer: &mut dyn std::io::Write) -> std::io::Result<()> {
    writer.write_all(self.text.as_bytes())
  }
}

/// A user-defined source that delegates to the public `stream_chunks_default`.
#[derive(Clone, Debug, PartialEq, Eq)]
pub struct DefaultSource {
  text: String,
  map: Option<SourceMap>,
}

impl Hash for DefaultSource {
  fn hash<H: Hasher>(&self, state: &mut H) {
    "DefaultSource".hash(state);
    self.text.hash(state);
    self.map.hash(state);
  }
}

impl DefaultSource {
  pub fn new(spec: DefaultSpec) -> Self {
    DefaultSource { text: spec.text, map: spec.map.map(|m| m.to_source_map()) }
  }
}

impl StreamChunks for DefaultSource {
  fn stream_chunks<'a>(
    &'a self,
    options: &MapOptions,
    on_chunk: OnChunk<'_, 'a>,
    on_source: OnSource<'_, 'a>,
    on_name: OnName<'_, 'a>,
  ) -> GeneratedInfo {
    stream_chunks_default(
      self.text.as_str(),
      self.map.as_ref(),
      options,
      on_chunk,
      on_source,
      on_name,
    )
  }
}

impl Source for DefaultSource {
  fn source(&self) -> Cow<str> {
    Cow::Borrowed(&self.text)
  }
  fn rope(&self) -> Rope<'_> {
    Rope::from(&self.text)
  }
  fn buffer(&self) -> Cow<[u8]> {
    Cow::Borrowed(self.text.as_bytes())
  }
  fn size(&self) -> usize {
    self.text.len()
  }
  fn map(&self, _options: &MapOptions) -> Option<SourceMap> {
    // user code: hand back the attached map when it maps anything at all
    let m = self.map.as_ref()?;
    let mut mapped = false;
    self.stream_chunks(
      &MapOptions::default(),
      &mut |_, mp| mapped |= mp.original.is_some(),
      &mut |_, _, _| {},
      &mut |_, _| {},
    );
    mapped.then(|| m.clone())
  }
  fn to_writer(&self, writer: &mut dyn std::io::Write) -> std::io::Result<()> {
    writer.write_all(self.text.as_bytes())
  }
}
