//! E3: breadth-first exploration of rope construction programs. A state is the
//! exact piece structure of the real rope (its `Debug` rendering); transitions
//! are add / append / byte_slice / lines from every reached state. Every state
//! is compared with the flat `String` it represents.

use std::collections::HashMap;

use rspack_sources::Rope;
use serde_json::{json, Value};

use crate::{engine::Ctx, observe::guarded};

pub const PIECES: [&str; 7] = ["", "a", "\n", "é", "b\n", "𝒳", "\nc"];

#[derive(Clone)]
pub struct St {
  pub rope: Rope<'static>,
  pub model: String,
  pub program: String,
  pub depth: usize,
}

fn key(r: &Rope) -> String {
  format!("{r:?}")
}

pub struct Explorer {
  pub states: Vec<St>,
  pub index: HashMap<String, usize>,
  pub transitions: u64,
  pub crashes: Vec<(String, String)>,
}

impl Explorer {
  fn add(&mut self, rope: Rope<'static>, model: String, program: String, depth: usize) {
    self.transitions += 1;
    let k = key(&rope);
    if !self.index.contains_key(&k) {
      self.index.insert(k, self.states.len());
      self.states.push(St { rope, model, program, depth });
    }
  }
}

fn boundaries(s: &str) -> Vec<usize> {
  let mut b: Vec<usize> = s.char_indices().map(|(i, _)| i).collect();
  b.push(s.len());
  b
}

pub fn model_lines(m: &str) -> Vec<String> {
  let mut v: Vec<String> = m.split_inclusive('\n').map(|s| s.to_string()).collect();
  if m.is_empty() || m.ends_with('\n') {
    v.push(String::new());
  }
  v
}

/// Build the state space to `depth`. `append_with` = how many of the earliest
/// states serve as the other operand of append.
pub fn explore(depth: usize, tuple_len: usize, append_with: usize) -> Explorer {
  let mut ex = Explorer { states: Vec::new(), index: HashMap::new(), transitions: 0, crashes: Vec::new() };
  // initial states
  ex.add(Rope::new(), String::new(), "Rope::new()".into(), 0);
  for p in PIECES {
    ex.add(Rope::from(p), p.to_string(), format!("Rope::from({p:?})"), 0);
  }
  // from_iter over all tuples of length 0..=tuple_len
  let mut tuples: Vec<Vec<&'static str>> = vec![vec![]];
  let mut layer: Vec<Vec<&'static str>> = vec![vec![]];
  for _ in 0..tuple_len {
    let mut next = Vec::new();
    for t in &layer {
      for p in PIECES {
        let mut q = t.clone();
        q.push(p);
        next.push(q);
      }
    }
    tuples.extend(next.iter().cloned());
    layer = next;
  }
  for t in tuples {
    ex.add(Rope::from_iter(t.iter().copied()), t.concat(), format!("Rope::from_iter({t:?})"), 0);
  }
  let mut frontier_start = 0usize;
  for d in 1..=depth {
    let frontier_end = ex.states.len();
    for i in frontier_start..frontier_end {
      let s = ex.states[i].clone();
      crate::set_current_desc(json!({"program": s.program, "expanding": true}).to_string());
      // add(p)
      for p in PIECES {
        let mut r = s.rope.clone();
        if guarded(|| r.add(p)).is_ok() {
          ex.add(r, format!("{}{}", s.model, p), format!("{}.add({p:?})", s.program), d);
        } else {
          ex.crashes.push((format!("{}.add({p:?})", s.program), "add panicked".into()));
        }
      }
      // append with the earliest states, both ways
      for j in 0..append_with.min(frontier_end) {
        let o = ex.states[j].clone();
        let mut r = s.rope.clone();
        if guarded(|| r.append(o.rope.clone())).is_ok() {
          ex.add(r, format!("{}{}", s.model, o.model), format!("{}.append({})", s.program, o.program), d);
        } else {
          ex.crashes.push((format!("{}.append({})", s.program, o.program), "append panicked".into()));
        }
        let mut r = o.rope.clone();
        if guarded(|| r.append(s.rope.clone())).is_ok() {
          ex.add(r, format!("{}{}", o.model, s.model), format!("{}.append({})", o.program, s.program), d);
        } else {
          ex.crashes.push((format!("{}.append({})", o.program, s.program), "append panicked".into()));
        }
      }
      // byte_slice over every pair of char boundaries
      let b = boundaries(&s.model);
      for (x, &a) in b.iter().enumerate() {
        for &e in &b[x..] {
          match guarded(|| s.rope.byte_slice(a..e)) {
            Ok(r) => ex.add(r, s.model[a..e].to_string(), format!("{}.byte_slice({a}..{e})", s.program), d),
            Err(m) => ex.crashes.push((format!("{}.byte_slice({a}..{e})", s.program), m)),
          }
        }
      }
      // every line of lines()
      match guarded(|| s.rope.lines().collect::<Vec<_>>()) {
        Ok(ls) => {
          let ml = model_lines(&s.model);
          for (li, l) in ls.into_iter().enumerate() {
            let m = ml.get(li).cloned().unwrap_or_else(|| l.to_string());
            ex.add(l, m, format!("{}.lines()[{li}]", s.program), d);
          }
        }
        Err(m) => ex.crashes.push((format!("{}.lines()", s.program), m)),
      }
    }
    frontier_start = frontier_end;
  }
  ex
}

fn report(ctx: &mut Ctx, clause: &str, program: &str, detail: String) {
  let p = program.to_string();
  // signature: the clause only (pieces differ); keep the smallest program
  ctx.violation(clause, String::new(), crate::findings::classify_rope(clause), || json!({"program": p}), program.len(), format!("{program}: {detail}"));
}

/// Unary observers of one state against its model string.
pub fn check_state(ctx: &mut Ctx, s: &St) {
  ctx.evaluations += 1;
  let r = &s.rope;
  let m = &s.model;
  let p = &s.program;
  macro_rules! obs {
    ($clause:expr, $e:expr, $want:expr) => {
      match guarded(|| $e) {
        Ok(got) => {
          let want = $want;
          if got != want {
            report(ctx, $clause, p, format!("got {:?}, the string {:?} gives {:?}", got, m, want));
          }
        }
        Err(e) => report(ctx, concat!($clause, "_panic"), p, format!("panicked: {e} (string {:?})", m)),
      }
    };
  }
  obs!("len", r.len(), m.len());
  obs!("is_empty", r.is_empty(), m.is_empty());
  obs!("to_string", r.to_string(), m.clone());
  obs!("to_bytes", r.to_bytes().into_owned(), m.as_bytes().to_vec());
  for i in 0..=m.len() + 1 {
    obs!("get_byte", r.get_byte(i), m.as_bytes().get(i).copied());
    if i < m.len() {
      obs!("byte", r.byte(i), m.as_bytes()[i]);
    }
  }
  obs!("char_indices", r.char_indices().collect::<Vec<_>>(), m.char_indices().collect::<Vec<_>>());
  obs!("lines", r.lines().map(|l| l.to_string()).collect::<Vec<_>>(), model_lines(m));
  for c in ['\n', 'a', 'é', '𝒳', 'b'] {
    obs!("ends_with", r.ends_with(c), m.ends_with(c));
  }
  obs!("eq_str_self", *r == *m.as_str(), true);
  obs!("eq_refstr_self", *r == m.as_str(), true);
  for other in ["", "a", "é", "ab", "\n", "b\n", "𝒳", "aé"] {
    obs!("eq_str", *r == *other, m == other);
    obs!("eq_refstr", *r == other, m == other);
    let o = Rope::from(other);
    obs!("eq_rope_light", *r == o, m == other);
    obs!("eq_rope_light_rev", o == *r, m == other);
    obs!("starts_with_light", r.starts_with(&o), m.starts_with(other));
    obs!("starts_with_light_rev", o.starts_with(r), other.starts_with(m.as_str()));
  }
  // every range, in and out of bounds, on and off char boundaries
  for a in 0..=m.len() + 1 {
    for e in 0..=m.len() + 1 {
      let want: Option<String> = if a <= e && e <= m.len() && m.is_char_boundary(a) && m.is_char_boundary(e) { Some(m[a..e].to_string()) } else { None };
      obs!("get_byte_slice", r.get_byte_slice(a..e).map(|x| x.to_string()), want.clone());
      ctx.transitions += 1;
      if want.is_some() {
        obs!("byte_slice", r.byte_slice(a..e).to_string(), want.clone().unwrap());
      }
    }
    let want_from: Option<String> = if a <= m.len() && m.is_char_boundary(a) { Some(m[a..].to_string()) } else { None };
    obs!("get_byte_slice_from", r.get_byte_slice(a..).map(|x| x.to_string()), want_from);
    let want_to: Option<String> = if a <= m.len() && m.is_char_boundary(a) { Some(m[..a].to_string()) } else { None };
    obs!("get_byte_slice_to", r.get_byte_slice(..a).map(|x| x.to_string()), want_to);
    // inclusive ends, also at and beyond the length (out of bounds)
    let want_incl: Option<String> = if a < m.len() && m.is_char_boundary(a + 1) { Some(m[..=a].to_string()) } else { None };
    obs!("get_byte_slice_to_inclusive", r.get_byte_slice(..=a).map(|x| x.to_string()), want_incl.clone());
    if let Some(first) = m.char_indices().nth(1).map(|x| x.0) {
      let want2: Option<String> = if first <= a + 1 && a < m.len() && m.is_char_boundary(a + 1) { Some(m[first..=a].to_string()) } else { None };
      obs!("get_byte_slice_inclusive", r.get_byte_slice(first..=a).map(|x| x.to_string()), want2);
    }
  }
  obs!("get_byte_slice_full", r.get_byte_slice(..).map(|x| x.to_string()), Some(m.clone()));
  // out-of-bounds ranges at the edge of usize: None, not an arithmetic panic
  obs!("get_byte_slice_inclusive_max", r.get_byte_slice(0..=usize::MAX).map(|x| x.to_string()), None::<String>);
  obs!(
    "get_byte_slice_excluded_start_max",
    r.get_byte_slice((std::ops::Bound::Excluded(usize::MAX), std::ops::Bound::Unbounded)).map(|x| x.to_string()),
    None::<String>
  );
  obs!("get_byte_slice_exclusive_max", r.get_byte_slice(0..usize::MAX).map(|x| x.to_string()), None::<String>);
  // the public unchecked slicer, called only within its documented contract (in range, start <= end,
  // both ends on char boundaries of the string the rope stands for): same answer as the checked one,
  // and (C19) no guarded precondition / std ub_check fires on the way
  let bs = boundaries(m);
  for &a in &bs {
    for &e in &bs {
      if a <= e {
        ctx.transitions += 1;
        #[allow(unsafe_code)]
        {
          obs!("byte_slice_unchecked", unsafe { r.byte_slice_unchecked(a..e) }.to_bytes().into_owned(), m.as_bytes()[a..e].to_vec());
        }
      }
    }
    #[allow(unsafe_code)]
    {
      obs!("byte_slice_unchecked_from", unsafe { r.byte_slice_unchecked(a..) }.to_bytes().into_owned(), m.as_bytes()[a..].to_vec());
      obs!("byte_slice_unchecked_to", unsafe { r.byte_slice_unchecked(..a) }.to_bytes().into_owned(), m.as_bytes()[..a].to_vec());
    }
  }
  ctx.traces_validated += 1;
}

pub fn check_pair(ctx: &mut Ctx, a: &St, b: &St) {
  ctx.evaluations += 1;
  ctx.transitions += 2;
  let prog = format!("({}) vs ({})", a.program, b.program);
  match guarded(|| a.rope == b.rope) {
    Ok(got) => {
      if got != (a.model == b.model) {
        report(ctx, "eq_rope", &prog, format!("== gives {got}, strings {:?} / {:?}", a.model, b.model));
      }
    }
    Err(e) => report(ctx, "eq_rope_panic", &prog, format!("== panicked: {e}; strings {:?} / {:?}", a.model, b.model)),
  }
  match guarded(|| a.rope.starts_with(&b.rope)) {
    Ok(got) => {
      if got != a.model.starts_with(b.model.as_str()) {
        report(ctx, "starts_with", &prog, format!("starts_with gives {got}, strings {:?} / {:?}", a.model, b.model));
      }
    }
    Err(e) => report(ctx, "starts_with_panic", &prog, format!("starts_with panicked: {e}; strings {:?} / {:?}", a.model, b.model)),
  }
}

pub fn params(tier: &str) -> (usize, usize, usize, usize) {
  // (depth, from_iter tuple length, append operands, pair window)
  if tier == "thorough" {
    (3, 2, 40, 6000)
  } else {
    (3, 2, 24, 2500)
  }
}

pub fn worker(tier: &str, k: usize, n: usize, ctx: &mut Ctx) {
  let (depth, tl, aw, pw) = params(tier);
  let ex = explore(depth, tl, aw);
  if k == 0 {
    ctx.states = ex.states.len() as u64;
    ctx.transitions = ex.transitions;
    for d in 0..=depth {
      ctx.add(&format!("states_first_reached_at_depth_{d}"), ex.states.iter().filter(|s| s.depth == d).count() as u64);
    }
    ctx.add("states_with_empty_piece_or_no_piece", ex.states.iter().filter(|s| { let k = key(&s.rope); k.contains("(\"\", ") || k.contains("Full([])") }).count() as u64);
    for s in ex.states.iter().step_by(ex.states.len() / 3 + 1) {
      ctx.samples.push(json!({"program": s.program, "structure": key(&s.rope), "string": s.model}));
    }
    for (p, m) in &ex.crashes {
      report(ctx, "construction_panic", p, m.clone());
    }
  }
  for (i, s) in ex.states.iter().enumerate() {
    if i % n != k {
      continue;
    }
    crate::set_current_desc(json!({"program": s.program}).to_string());
    ctx.begin_case(|| s.program.clone());
    if s.model.len() >= 2 && key(&s.rope).contains("Full") {
      ctx.nontrivial += 1;
    }
    ctx.outcome(&s.model);
    check_state(ctx, s);
  }
  // all ordered pairs among the first `pw` states
  let m = pw.min(ex.states.len());
  let mut c = 0usize;
  for i in 0..m {
    for j in 0..m {
      c += 1;
      if c % n != k {
        continue;
      }
      if c % 64 == 0 {
        crate::set_current_desc(json!({"pair": [ex.states[i].program, ex.states[j].program]}).to_string());
      }
      check_pair(ctx, &ex.states[i], &ex.states[j]);
    }
  }
  segmentation_pairs(tier, k, n, ctx);
}

/// Every way of cutting a text into pieces (on char boundaries), built with from_iter and with add:
/// every ordered pair of segmentations of the SAME text must compare equal (and agree on
/// starts_with), every pair over two texts of the same length that differ in one character must
/// compare unequal - whatever the number of pieces on either side.
pub fn segmentation_pairs(tier: &str, k: usize, n: usize, ctx: &mut Ctx) {
  let texts: &[&str] = if tier == "thorough" { &["abcde", "a\nbé𝒳", "ab\ncd\n"] } else { &["abcd", "a\né𝒳"] };
  let mut c = 0usize;
  for text in texts {
    let bs = boundaries(text);
    let inner: Vec<usize> = bs[1..bs.len() - 1].to_vec();
    let cuts_of = |mask: u32| -> Vec<&str> {
      let mut v = Vec::new();
      let mut from = 0;
      for (i, &b) in inner.iter().enumerate() {
        if mask & (1 << i) != 0 {
          v.push(&text[from..b]);
          from = b;
        }
      }
      v.push(&text[from..]);
      v
    };
    // the same text with its last / first character replaced by another of the same byte length
    let other_last = format!("{}{}", &text[..bs[bs.len() - 2]], if text.ends_with('\n') { "x" } else if text.ends_with('𝒳') { "𝒴" } else { "z" });
    let nmasks = 1u32 << inner.len();
    for m1 in 0..nmasks {
      for m2 in 0..nmasks {
        c += 1;
        if c % n != k {
          continue;
        }
        let (p1, p2) = (cuts_of(m1), cuts_of(m2));
        let prog = format!("from_iter({p1:?}) vs from_iter({p2:?})");
        crate::set_current_desc(json!({"program": prog}).to_string());
        ctx.evaluations += 1;
        ctx.states += 1;
        ctx.transitions += 4;
        let r1 = Rope::from_iter(p1.iter().copied());
        let mut r2 = Rope::new();
        for p in &p2 {
          r2.add(p);
        }
        match guarded(|| (r1 == r2, r2 == r1, r1.starts_with(&r2))) {
          Ok((true, true, true)) => {}
          Ok(got) => report(ctx, "eq_rope_segmentations", &prog, format!("same text {text:?} cut differently: (a==b, b==a, a.starts_with(b)) = {got:?}")),
          Err(e) => report(ctx, "eq_rope_panic", &prog, format!("panicked: {e}")),
        }
        // against the other text, cut the same way as p2 where possible (same byte lengths)
        let mut r3 = Rope::new();
        let mut from = 0;
        for p in &p2 {
          r3.add(&other_last[from..from + p.len()]);
          from += p.len();
        }
        match guarded(|| (r1 == r3, r3 == r1)) {
          Ok((false, false)) => {}
          Ok(got) => report(ctx, "eq_rope_segmentations", &prog, format!("{text:?} vs {other_last:?}: (a==b, b==a) = {got:?}")),
          Err(e) => report(ctx, "eq_rope_panic", &prog, format!("panicked: {e}")),
        }
      }
    }
  }
}

pub fn bounds(tier: &str) -> Value {
  let (depth, tl, aw, pw) = params(tier);
  json!({
    "engine": "E3 rope: BFS over construction programs, state = exact piece structure of the real rope",
    "pieces": PIECES,
    "depth": depth,
    "initial_states": format!("Rope::new(), Rope::from(p), Rope::from_iter(every tuple of length 0..={tl})"),
    "transitions": format!("add(p) for every piece; append with each of the first {aw} states, both ways; byte_slice over every pair of char boundaries; every element of lines()"),
    "unary_observers": "len is_empty to_string to_bytes byte/get_byte(0..=len+1) char_indices lines ends_with ==str ==&str; get_byte_slice for every (s,e) in 0..=len+1 and the open/inclusive range forms",
    "binary_observers": format!("== and starts_with for every ordered pair among the first {pw} states (plus 8 fixed light ropes against every state)"),
  })
}
