#!/usr/bin/env python3
"""Rewrite section 8 of DESIGN.md (between the markers) from seeded/*/meta.json."""
import json, os, re
ROOT=os.path.dirname(os.path.dirname(os.path.abspath(__file__)))
rows=[]
for i in sorted(os.listdir(f'{ROOT}/seeded')):
    p=f'{ROOT}/seeded/{i}/meta.json'
    if not os.path.isfile(p): continue
    m=json.load(open(p))
    det=m.get('detected_by_quick',[]); miss=m.get('not_detected_by_quick',[])
    rows.append(f"| {i} | {m['property']} | {m.get('what','').replace('|','/')} | {m.get('needs_to_manifest','').replace('|','/')} | {' '.join(det) or '-'} | {' '.join(miss) or '-'} | {(m.get('strengthened','') or ('NOT CAUGHT BY ITS TARGET - ' + m['not_caught_reason'] if m.get('not_caught_reason') else '')).replace('|','/')} |")
table="\n".join(["| id | targets | change | needs, in order to manifest | caught by (quick) | run but silent | what was strengthened to catch it |","|---|---|---|---|---|---|---|"]+rows)
s=open(f'{ROOT}/DESIGN.md').read()
a=s.index('<!-- SEEDED-TABLE-BEGIN -->'); b=s.index('<!-- SEEDED-TABLE-END -->')
s=s[:a]+'<!-- SEEDED-TABLE-BEGIN -->\n'+table+'\n'+s[b:]
open(f'{ROOT}/DESIGN.md','w').write(s)
print(len(rows),'rows')
