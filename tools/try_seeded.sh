#!/bin/bash
# usage: tools/try_seeded.sh <seeded-id> [tier] [check ids...]
# Applies /verif/seeded/<id>/patch.diff to /repo, runs the given checks (default: the property the
# change targets, from meta.json), prints which report a violation, and ALWAYS restores /repo.
set -u
ROOT="$(cd "$(dirname "${BASH_SOURCE[0]}")/.." && pwd)"
ID="${1:?seeded id}"; shift
TIER="${1:-quick}"; [ $# -gt 0 ] && shift
DIR="$ROOT/seeded/$ID"
PATCH="$DIR/patch.diff"
[ -f "$PATCH" ] || { echo "no $PATCH"; exit 2; }
if [ $# -gt 0 ]; then CHECKS="$*"; else CHECKS=$(python3 -c "import json;print(' '.join(json.load(open('$DIR/meta.json'))['run_checks']))"); fi
if ! git -C /repo diff --quiet -- src; then echo "/repo/src has local changes; refusing"; exit 2; fi
git -C /repo apply "$PATCH" || { echo "patch does not apply"; exit 2; }
trap 'git -C /repo checkout -- src Cargo.toml >/dev/null 2>&1' EXIT
for c in $CHECKS; do
  out=$("$ROOT/bin/check" "$c" "$TIER" 2>&1); rc=$?
  n=$(echo "$out" | grep -c '^VIOLATION')
  first=$(echo "$out" | grep -A1 '^VIOLATION' | grep clause | head -1 | cut -c1-220)
  echo "seeded=$ID check=$c tier=$TIER exit=$rc violations=$n $first"
done
