#!/usr/bin/env python3
"""Writes /tmp/prompt_<ID>.txt for a round of seeded-change sub-agents: the property text only (from
properties.jsonl), the task, and the list of changes already taken for that property (one line each,
from seeded/*/meta.json 'what'). Nothing else from /verif reaches the agent.
usage: tools/make_agent_prompts.py [ID ...]"""
import json, os, subprocess, sys
ROOT=os.path.dirname(os.path.dirname(os.path.abspath(__file__)))
props={}
for l in open(f'{ROOT}/properties.jsonl'):
    p=json.loads(l); props[p['id']]=p
ids=sys.argv[1:] or sorted(props)
for pid in ids:
    p=props[pid]
    q=(p.get('quantifier') or {}).get('text','')
    text=f"{pid} — {p['title']}\n\n{p['statement']}\n" + (f"\nQuantified over: {q}\n" if q else '')
    open(f'/tmp/prop_{pid}.txt','w').write(text)
    base=subprocess.run([sys.executable, f'{ROOT}/tools/agent/agent_prompt_base.py', pid], capture_output=True, text=True, check=True).stdout
    taken=[]
    for d in sorted(os.listdir(f'{ROOT}/seeded')):
        mp=f'{ROOT}/seeded/{d}/meta.json'
        if os.path.isfile(mp):
            m=json.load(open(mp))
            if m['property']==pid: taken.append(m['what'])
    xt=json.load(open(f'{ROOT}/tools/agent/extra_taken.json'))
    taken+= [t for t in xt.get('_all',[])+xt.get(pid,[]) if t not in taken]
    extra="\nAdditional constraint: the following changes are already taken; do NOT use them or close variants, and prefer a different function or file than these:\n"+"".join(f"  - {t}\n" for t in taken)
    extra+="Ideas that tend to be overlooked: two cooperating sites that each look fine alone; state that survives from one call/child/line to the next; a shortcut for a 'common case' whose guard is slightly too wide; an index translated through the wrong table; behaviour that differs between the first and a repeated call; code paths only taken by unusual but legal inputs (empty pieces, multi-byte text, positions beyond the end, several sources/names, lines-only mode, final-source mode).\n"
    extra+="\nAlso: while reading the code, if you notice that the UNMODIFIED library already violates the property for some input (independently of your change), describe that input briefly at the end of seeded.md and in your final answer under the heading 'Pre-existing violation'. Do not build your seeded change on it.\n"
    open(f'/tmp/prompt_{pid}.txt','w').write(base+extra)
    print(pid, len(taken), 'taken')
