#!/usr/bin/env python3
"""Run every check listed in seeded/<id>/meta.json against the seeded change and record which report a violation.
usage: tools/record_seeded.py [tier] [id ...]"""
import json, os, subprocess, sys
ROOT=os.path.dirname(os.path.dirname(os.path.abspath(__file__)))
tier=sys.argv[1] if len(sys.argv)>1 else 'quick'
ids=sys.argv[2:] or sorted(os.listdir(f'{ROOT}/seeded'))
for i in ids:
    d=f'{ROOT}/seeded/{i}'
    if not os.path.isfile(f'{d}/meta.json'): continue
    m=json.load(open(f'{d}/meta.json'))
    out=subprocess.run([f'{ROOT}/tools/try_seeded.sh', i, tier], capture_output=True, text=True).stdout
    det=[];miss=[];lines={}
    for l in out.splitlines():
        if not l.startswith('seeded='): continue
        kv=dict(x.split('=',1) for x in l.split()[:5])
        c=kv['check']; n=int(kv['violations']); rc=kv['exit']
        (det if (n>0 and rc=='1') else miss).append(c)
        if n>0: lines[c]=l.split('violations=',1)[1].split(' ',1)[1].strip()[:300] if ' ' in l.split('violations=',1)[1] else ''
    m[f'detected_by_{tier}']=det; m[f'not_detected_by_{tier}']=miss; m[f'first_report_{tier}']=lines
    m['ran']=m.get('ran',[])
    cmd=f'tools/try_seeded.sh {i} {tier}  (git -C /repo apply seeded/{i}/patch.diff; bin/check <ID> {tier} for ID in run_checks; git -C /repo checkout -- src)'
    if cmd not in m['ran']: m['ran'].append(cmd)
    json.dump(m,open(f'{d}/meta.json','w'),indent=1)
    print(i,'detected by',det,'missed by',miss)
