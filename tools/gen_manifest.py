#!/usr/bin/env python3
"""Regenerate /verif/MANIFEST.json from the table below (kept next to the checks so it stays current)."""
import json, os, subprocess
ROOT = os.path.dirname(os.path.dirname(os.path.abspath(__file__)))

def hook_commits():
    try:
        out = subprocess.check_output(["git", "-C", "/repo", "log", "--format=%h %s"], text=True)
        return [l.split()[0] for l in out.splitlines() if l.split(" ", 1)[1].startswith("verif hooks")]
    except Exception:
        return []

ENGINES = [
    {"name": "E1 trees", "path": "mc/src/trees.rs mc/src/tree_checks.rs mc/src/props.rs",
     "serves_properties": ["C01", "C02", "C03", "C04", "C06", "C07", "C08", "C09", "C11", "C13", "C17", "C19"],
     "kind_free_text": "explicit-state enumeration of source-tree construction programs (BFS levels over small alphabets), every state checked against Rust reference models, 16 worker subprocesses"},
    {"name": "E2 hist", "path": "mc/src/hist.rs", "serves_properties": ["C05", "C10", "C14", "C20"],
     "kind_free_text": "all mutator/observer call histories up to a depth on real objects and their clones"},
    {"name": "E3 rope", "path": "mc/src/rope_mc.rs", "serves_properties": ["C16", "C19"],
     "kind_free_text": "BFS over rope construction programs, state = exact piece structure, String reference model"},
    {"name": "E4 codec", "path": "mc/src/codec.rs", "serves_properties": ["C12", "C17"],
     "kind_free_text": "all mapping sequences / all v3-grammar strings over boundary alphabets, all single-field deltas < 2^20"},
    {"name": "E5 sched", "path": "mc/src/sched.rs", "serves_properties": ["C18", "C19"],
     "kind_free_text": "hand-rolled CHESS-style stateless scheduler over real threads, yields at guarded hook points, iterative preemption bounding"},
    {"name": "E6 json", "path": "mc/src/jsonmc.rs", "serves_properties": ["C15", "C17"],
     "kind_free_text": "all SourceMap values / JSON documents over a character alphabet x field lattice; all byte strings <= n"},
    {"name": "E7 faults", "path": "mc/src/tree_checks.rs", "serves_properties": ["C07"],
     "kind_free_text": "for every tree and every k: writer failing after k bytes; short writes; one Interrupted at every position"},
]

# id -> (engine, technique, text, note)
CHECKS = {}
def chk(pid, engine, technique, text, note, design):
    CHECKS[pid] = dict(engine=engine, technique=technique, text=text, note=note, design=design)

TREE_NOTE = "trusted: the Rust reference models (mc/src/model.rs, refcodec.rs) as the reading of the statement (DESIGN.md section 6); bounds stated in evidence coverage.bounds; ASCII positions only"
chk("C01", "E1 trees", "explicit-state enumeration of construction programs (bounded exhaustive), lock-step comparison with a reference text model",
    "every term of the bounded term language (all leaf kinds incl. scripted user sources, multi-byte text, wild maps; all replacement sets of size <=2/3 at every position pair) is built as a real object; the outside chunk stream for both column settings must carry text and reassemble to source(), which must equal the model text", TREE_NOTE, "5 C01")
chk("C02", "E1 trees", "explicit-state enumeration of construction programs, positions recomputed from the reassembled text",
    "every term of the ASCII scope, all four (columns, final) modes: chunk positions equal true positions, GeneratedInfo equals the end of source(), final-mode positions are character positions in non-decreasing order", TREE_NOTE, "5 C02")
chk("C03", "E1 trees", "explicit-state enumeration of construction programs, differential oracle map() vs outside stream per character position",
    "every term of the ASCII scope, every character position: resolving through map(columns) equals the attribution of the covering chunk of the outside stream (file, line, column, name; file+line per line for columns=false); map() is None exactly when no chunk is mapped", TREE_NOTE + "; trees with a CachedSource beneath a ReplaceSource are compared in equal cache states (cold/cold and warm/warm)", "5 C03")
chk("C04", "E1 trees", "explicit-state enumeration of construction programs against a provenance-tagged character model",
    "every term over {Raw*, Original, Concat, Replace, Cached}: the cell model knows the true origin of every output character; clauses (a)-(e) of the statement are checked on map(true)/map(false)", TREE_NOTE + "; reading 6.1: a line break alone on its original line is exempt from coverage with columns=true", "5 C04")
chk("C07", "E1 trees + E7 faults", "explicit-state enumeration of construction programs plus exhaustive fault enumeration (writer failing after k bytes for every k)",
    "every term incl. multi-byte and invalid UTF-8 leaves: rope/source/buffer/size/to_writer agree with each other and with the byte model; for every k a writer that fails after k bytes gets that error back and has received a prefix of buffer(); short writes and a single Interrupted at every call position deliver the full buffer", TREE_NOTE, "5 C07")
chk("C11", "E1 trees", "explicit-state enumeration of construction programs, well-formedness invariants on every map and stream",
    "every term of the ASCII scope: map(T/F) strictly increasing, lines >= 1, before end of text, indices inside tables, alphabet; all four stream modes: indices announced before use and dense from zero", TREE_NOTE, "5 C11")

chk("C05", "E2 hist", "exhaustive enumeration of call histories (prefix tree to a depth bound) replayed on real objects against a reference model",
    "every history of up to 5 (quick) / 6 (thorough) calls over 12-14 colliding mutators (equal keys, enforce, overlap, beyond the end, multi-byte) and 12 observers (source rope buffer size to_writer map stream hash clone Debug) on 4-6 inner sources: the answer of every observer equals the text model applied to the mutator subsequence, and map/stream/hash/Debug equal those of a never-observed twin; the sorted-flag abstraction is validated against the real flag and index after every observer",
    "trusted: the splice model of the statement (mc/src/model.rs); bounded depth and alphabets; read-only hook ReplaceSource::verif_sorted_state", "5 C05")
chk("C06", "E1 trees", "explicit-state enumeration of construction programs; per-position comparison of composite attribution with each child's own attribution",
    "Concat: all ordered pairs of a pool of attributed leaves (SourceMapSource with several sources/names, scripted user sources announcing eagerly/lazily, with/without content, shared names), all triples of a reduced pool flat and nested: every position keeps file, content, line, column, name of its child (stream and map), per-line first mapped piece for columns=false. Replace: every pool element and pair as inner source x all replacement sets of size <= 2: survivors keep file/line/name, column within [col0, col0+offset] and exact where the statement determines it; replacement content carries the location active at its splice point and the given or inherited name",
    TREE_NOTE + "; readings 6.2, 6.5 (splice point); inner sources containing a CachedSource are excluded from the Replace part (history-dependent chunking)", "5 C06")
chk("C08", "E1 trees", "explicit-state enumeration of (text, map) pairs against a reference segment lookup",
    "all texts of the alphabet x all maps with up to 5 (quick) / 6 (thorough) segments on every character or end-of-text position, each unmapped / 4-field / 5-field over 2 sources and 2 names, 4 sourceRoot settings, with and without sourcesContent: per-position attribution in all four (columns, final) modes, through map() of an enclosing ConcatSource, event-for-event equality with a user source using stream_chunks_default, declared tables equal to the map's",
    TREE_NOTE, "5 C08")
chk("C09", "E1 trees", "explicit-state enumeration of (generated text, outer map, original text, inner map, options) against a reference composition over decoded maps",
    "all outer maps of <= 2 (quick) / 3 (thorough) segments pointing into the inner source at every position of the original text (with/without outer name) or into other sources, 3 outer source tables, all inner maps of <= 2/3 segments, original_source given or from outer sourcesContent, remove_original_source, columns: file/line/content/name per position by map() and stream; column interval and exactness rule; names as 'inner, else outer if it matches the original text, else none'",
    TREE_NOTE + "; consistent maps only (wild ones are C17)", "5 C09")
chk("C10", "E2 hist", "exhaustive enumeration of call histories over two handles (original, clone) replayed on real objects against a never-cached build",
    "every history of up to 4 (quick) / 5 (thorough) calls from {source buffer size rope hash map(T) map(F) stream x 4 modes} on the original and its clone over 24+ wrapped trees: the answer of the last call equals what a fresh never-cached build of the wrapped tree answers (text, size, GeneratedInfo, per-position attribution); the cache snapshot after every call must extend the previous one (entries never change or vanish)",
    "trusted: attribution resolver; bounded depth/pool; read-only hook CachedSource::verif_cache_snapshot; wrapped trees contain no CachedSource beneath a ReplaceSource", "5 C10")
chk("C12", "E4 codec", "exhaustive enumeration of mapping sequences, single-field deltas and v3-grammar strings against an independent reference codec",
    "all sorted sequences of <= 2 segments over a boundary-value alphabet (3-4 over a reduced one) through encode_mappings, decode_mappings and the reference decoder (subsequence, per-position attribution, drop rule, re-encoding, line-only encoder); every single-field delta of magnitude < 2^20 in each field, both signs; decoder vs reference decoder on 5.6 M strings of the v3 grammar incl. redundant continuation digits, empty segments, several ';'",
    "trusted: mc/src/refcodec.rs written from the source-map v3 description; generated lines kept small (one ';' per line)", "5 C12")
chk("C13", "E1 trees", "explicit-state enumeration of triples of trees x grouping/wrapper laws, per-position differential comparison",
    "all ordered triples of a pool x 8 grouping styles (typed/boxed/added later/double boxed) against the flat concatenation; per pool element: single-child concat, Cached, Cached(Cached), Boxed, Replace without replacements, 15 empty-concatenation forms, every single and paired empty insertion (column may advance, reading 6.2): same text and same per-position attribution by map() and by stream for both column settings",
    TREE_NOTE, "5 C13")
chk("C14", "E2 hist", "exhaustive enumeration of (tree, twin / single-edit neighbour, observer prefix pair) on real objects",
    "146+ trees of every type, each built twice: for all pairs of observer prefixes of <= 2 calls from {source map(T) map(F) stream hash size clone}: twins compare equal both ways, hash equal, hash unchanged from the fresh value, every observer answers what a fresh value answers, a clone equals its original; for every single edit at every node and prefixes of <= 1 call: a == b implies equal hashes and equal answers, == is symmetric",
    "trusted: attribution resolver; bounded pool and prefix length; trees with a CachedSource beneath a ReplaceSource excluded", "5 C14")
chk("C15", "E6 json", "exhaustive enumeration of SourceMap values and JSON documents over a string alphabet x field lattice, independent parser as oracle",
    "every ordered pair of the 7 string fields x every pair of 12 strings (quotes, backslash, NUL, U+1F, DEL, U+2028/9, non-ASCII, astral) x presence of file/sourceRoot/debugId x sourcesContent mode: to_json == to_writer, serde_json reads a version-3 object with the same fields, from_json/from_slice/from_reader agree and round-trip; documents with nulls, missing arrays and reordered keys read as stated",
    "trusted: serde_json as the independent parser", "5 C15")
chk("C16", "E3 rope", "breadth-first explicit-state search over rope construction programs, state = exact piece structure, String reference model",
    "BFS to depth 3 over 6 pieces (empty, ASCII, line break, 2-/4-byte chars): new/from/from_iter(all tuples <= 2) then add, append (both ways), byte_slice (every pair of char boundaries), lines()[i] from every state; in every state all unary observers incl. get_byte_slice for every (s,e) in 0..=len+1; == and starts_with for all ordered pairs among the first 2500/8000 states",
    "trusted: std String semantics; Hash of Rope not compared", "5 C16")
chk("C17", "E4 codec + E6 json + E1 trees", "exhaustive enumeration of inputs (strings, byte strings, single-edit neighbourhoods, wild trees) in two build profiles, panic/abort/hang as the only oracle",
    "decode_mappings on all strings of length <= 6/8 over a 9-character alphabet plus continuation runs 1..=40 in every field position; the three parsers on all byte strings of length <= 2/3 and the complete single-edit neighbourhood of 12 valid documents; every Source method and 4 stream modes on the wild tree scope and on 16 M SourceMapSource-with-inner-map cases whose segments/indices point outside text and tables; everything in the overflow-checked profile and again in release",
    "trusted: catch_unwind + subprocess isolation; worker wall limit as hang detector; bounded lengths", "5 C17")
chk("C20", "E2 hist", "exhaustive enumeration of (tree, single edit) and (tree, tree) pairs; reproducibility across processes, threads and observer histories",
    "for every tree of the pool and every single edit at every node (text, file name, replacement start/end/content/name/enforce/order, child added/removed/swapped, map mappings/sources/contents/names/file/root, inner map, original source, remove flag) and every ordered pair of pool trees: if source(), buffer() or map() differ then the values compare unequal and hash differently under SipHash and FxHash; pool hash digest identical in 16 processes, 4 threads and after every observer prefix of <= 2 calls",
    "trusted: 64-bit collisions treated as violations; SourceMapSource name and debugId excluded (statement, reading 6.3)", "5 C20")

chk("C18", "E5 sched", "stateless model checking of the real code under a controlled scheduler: all schedules of small multi-threaded programs up to a preemption bound, each run to completion",
    "24+ programs of 2-3 real threads x 1-2 operations over a shared ReplaceSource with unsorted colliding replacements (lazy sort, clone), a cold CachedSource and clones sharing its cache (both fill paths, replay, hash memo), lazily decoded buffers (incl. ==), composites, and a user-defined child yielding inside its callbacks; every schedule at the granularity of the hook points before each shared-state access, preemption bound 2-3 (quick) / 3-6 (thorough): every call answers what it answers single-threaded, no deadlock (enabledness probed on the real DashMap locks), no cache entry is ever replaced",
    "trusted: hook placement (a new unhooked shared access is only seen as part of its neighbour's atomic step); sequential consistency; replay of the default schedule twice must give identical traces", "5 C18")
chk("C19", "E3 rope + E1 trees + E5 sched (monitor)", "the exhaustive explorations of C16/C01/C17/C18 re-run with a guarded precondition assertion armed before each unsafe operation, plus std ub_checks",
    "all rope programs of C16, the wild and general tree scopes through every Source method and stream mode (chunks/names/contents kept until the call returned, then read), replay of every tree through a filled CachedSource, wild combined maps, and all C18 schedules: no precondition assertion of the 14 unsafe sites fails, no worker aborts; each site must be reached (else machinery failure); the lifetime-extended cached map is covered by the write-once monitors",
    "trusted: the stated precondition at each site is the right one; no address sanitizer (a freed-but-readable reference is only caught through the write-once monitors)", "5 C19")

ALL = ["C%02d" % i for i in range(1, 21)]
NOT_YET = {p: "check not built yet in this round (machinery under construction; see DESIGN.md section 5 for the planned exhaustive exploration)" for p in ALL if p not in CHECKS}

def main():
    checks = []
    for pid in sorted(CHECKS):
        c = CHECKS[pid]
        checks.append({
            "property_id": pid,
            "quick_cmd": f"bin/check {pid} quick",
            "thorough_cmd": f"bin/check {pid} thorough",
            "evidence_file": f"/verif/evidence/{pid}.json",
            "replay_cmd_template": "mc/target/checked/mc replay {path}",
            "engine": c["engine"],
            "level_claimed": {"category": "model_checking", "text": c["text"], "design_ref": c["design"]},
            "level_note": c["note"],
            "technique": c["technique"],
        })
    m = {
        "version": 1,
        "setup_cmd": "bin/setup",
        "hooks": {
            "guard": "cargo feature verif_hooks",
            "enable": "the harness crate /verif/mc depends on rspack_sources by path with features=[\"verif_hooks\"]; bin/check runs cargo +1.83.0 build --offline first, which rebuilds /repo's current working tree",
            "baseline_off_cmd": "cd /repo && (cargo nextest run --workspace --no-fail-fast --tool-config-file pb:/w/lib/nextest.toml --profile pb --test-threads 8 --offline || cargo test --workspace --no-fail-fast --offline)",
            "source_commits": hook_commits(),
            "add_only": True,
        },
        "engines": ENGINES,
        "checks": checks,
        "notes": "All checks: exit 0 held / only KNOWN-FINDING lines; exit 1 with VIOLATION lines; exit 2 = machinery failure (never a verdict). Known findings: /verif/known_findings.json. Seeded mutants: /verif/seeded/. VERIF_SEED is recorded but nothing is random: every tier enumerates its scope completely.",
        "not_applicable": [{"property_id": p, "reason": r} for p, r in sorted(NOT_YET.items())],
    }
    with open(os.path.join(ROOT, "MANIFEST.json"), "w") as f:
        json.dump(m, f, indent=1)
        f.write("\n")

if __name__ == "__main__":
    main()
