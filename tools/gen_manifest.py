#!/usr/bin/env python3
"""Regenerate /verif/MANIFEST.json from the table below (kept next to the checks so it stays current)."""
import json, os, subprocess
ROOT = os.path.dirname(os.path.dirname(os.path.abspath(__file__)))

def hook_commits():
    try:
        out = subprocess.check_output(["git", "-C", "/repo", "log", "--format=%h %s"], text=True)
        return [l.split()[0] for l in out.splitlines() if l.split(" ", 1)[1].startswith("verif hooks")]
    except Exception:
        return []

ENGINES = [
    {"name": "E1 trees", "path": "mc/src/trees.rs mc/src/tree_checks.rs mc/src/props.rs",
     "serves_properties": ["C01", "C02", "C03", "C04", "C06", "C07", "C08", "C09", "C11", "C13", "C17", "C19"],
     "kind_free_text": "explicit-state enumeration of source-tree construction programs (BFS levels over small alphabets), every state checked against Rust reference models, 16 worker subprocesses"},
    {"name": "E2 hist", "path": "mc/src/hist.rs", "serves_properties": ["C05", "C10", "C14", "C20"],
     "kind_free_text": "all mutator/observer call histories up to a depth on real objects and their clones"},
    {"name": "E3 rope", "path": "mc/src/rope_mc.rs", "serves_properties": ["C16", "C19"],
     "kind_free_text": "BFS over rope construction programs, state = exact piece structure, String reference model"},
    {"name": "E4 codec", "path": "mc/src/codec.rs", "serves_properties": ["C12", "C17"],
     "kind_free_text": "all mapping sequences / all v3-grammar strings over boundary alphabets, all single-field deltas < 2^20"},
    {"name": "E5 sched", "path": "mc/src/sched.rs", "serves_properties": ["C18", "C19"],
     "kind_free_text": "hand-rolled CHESS-style stateless scheduler over real threads, yields at guarded hook points, iterative preemption bounding"},
    {"name": "E6 json", "path": "mc/src/jsonmc.rs", "serves_properties": ["C15", "C17"],
     "kind_free_text": "all SourceMap values / JSON documents over a character alphabet x field lattice; all byte strings <= n"},
    {"name": "E7 faults", "path": "mc/src/tree_checks.rs", "serves_properties": ["C07"],
     "kind_free_text": "for every tree and every k: writer failing after k bytes; short writes; one Interrupted at every position"},
]

# id -> (engine, technique, text, note)
CHECKS = {}
def chk(pid, engine, technique, text, note, design):
    CHECKS[pid] = dict(engine=engine, technique=technique, text=text, note=note, design=design)

TREE_NOTE = "trusted: the Rust reference models (mc/src/model.rs, refcodec.rs) as the reading of the statement (DESIGN.md section 6); bounds stated in evidence coverage.bounds; ASCII positions only"
chk("C01", "E1 trees", "explicit-state enumeration of construction programs (bounded exhaustive), lock-step comparison with a reference text model",
    "every term of the bounded term language (all leaf kinds incl. scripted user sources, multi-byte text, wild maps; all replacement sets of size <=2/3 at every position pair) is built as a real object; the outside chunk stream for both column settings must carry text and reassemble to source(), which must equal the model text", TREE_NOTE, "5 C01")
chk("C02", "E1 trees", "explicit-state enumeration of construction programs, positions recomputed from the reassembled text",
    "every term of the ASCII scope, all four (columns, final) modes: chunk positions equal true positions, GeneratedInfo equals the end of source(), final-mode positions are character positions in non-decreasing order", TREE_NOTE, "5 C02")
chk("C03", "E1 trees", "explicit-state enumeration of construction programs, differential oracle map() vs outside stream per character position",
    "every term of the ASCII scope, every character position: resolving through map(columns) equals the attribution of the covering chunk of the outside stream (file, line, column, name; file+line per line for columns=false); map() is None exactly when no chunk is mapped", TREE_NOTE + "; trees with a CachedSource beneath a ReplaceSource are compared in equal cache states (cold/cold and warm/warm)", "5 C03")
chk("C04", "E1 trees", "explicit-state enumeration of construction programs against a provenance-tagged character model",
    "every term over {Raw*, Original, Concat, Replace, Cached}: the cell model knows the true origin of every output character; clauses (a)-(e) of the statement are checked on map(true)/map(false)", TREE_NOTE + "; reading 6.1: a line break alone on its original line is exempt from coverage with columns=true", "5 C04")
chk("C07", "E1 trees + E7 faults", "explicit-state enumeration of construction programs plus exhaustive fault enumeration (writer failing after k bytes for every k)",
    "every term incl. multi-byte and invalid UTF-8 leaves: rope/source/buffer/size/to_writer agree with each other and with the byte model; for every k a writer that fails after k bytes gets that error back and has received a prefix of buffer(); short writes and a single Interrupted at every call position deliver the full buffer", TREE_NOTE, "5 C07")
chk("C11", "E1 trees", "explicit-state enumeration of construction programs, well-formedness invariants on every map and stream",
    "every term of the ASCII scope: map(T/F) strictly increasing, lines >= 1, before end of text, indices inside tables, alphabet; all four stream modes: indices announced before use and dense from zero", TREE_NOTE, "5 C11")

ALL = ["C%02d" % i for i in range(1, 21)]
NOT_YET = {p: "check not built yet in this round (machinery under construction; see DESIGN.md section 5 for the planned exhaustive exploration)" for p in ALL if p not in CHECKS}

def main():
    checks = []
    for pid in sorted(CHECKS):
        c = CHECKS[pid]
        checks.append({
            "property_id": pid,
            "quick_cmd": f"bin/check {pid} quick",
            "thorough_cmd": f"bin/check {pid} thorough",
            "evidence_file": f"/verif/evidence/{pid}.json",
            "replay_cmd_template": "mc/target/checked/mc replay {path}",
            "engine": c["engine"],
            "level_claimed": {"category": "model_checking", "text": c["text"], "design_ref": c["design"]},
            "level_note": c["note"],
            "technique": c["technique"],
        })
    m = {
        "version": 1,
        "setup_cmd": "bin/setup",
        "hooks": {
            "guard": "cargo feature verif_hooks",
            "enable": "the harness crate /verif/mc depends on rspack_sources by path with features=[\"verif_hooks\"]; bin/check runs cargo +1.83.0 build --offline first, which rebuilds /repo's current working tree",
            "baseline_off_cmd": "cd /repo && (cargo nextest run --workspace --no-fail-fast --tool-config-file pb:/w/lib/nextest.toml --profile pb --test-threads 8 --offline || cargo test --workspace --no-fail-fast --offline)",
            "source_commits": hook_commits(),
            "add_only": True,
        },
        "engines": ENGINES,
        "checks": checks,
        "notes": "All checks: exit 0 held / only KNOWN-FINDING lines; exit 1 with VIOLATION lines; exit 2 = machinery failure (never a verdict). Known findings: /verif/known_findings.json. Seeded mutants: /verif/seeded/. VERIF_SEED is recorded but nothing is random: every tier enumerates its scope completely.",
        "not_applicable": [{"property_id": p, "reason": r} for p, r in sorted(NOT_YET.items())],
    }
    with open(os.path.join(ROOT, "MANIFEST.json"), "w") as f:
        json.dump(m, f, indent=1)
        f.write("\n")

if __name__ == "__main__":
    main()
