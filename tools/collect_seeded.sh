#!/bin/bash
# collect_seeded.sh <PROP>  : copy a sub-agent's deliverables from /tmp/wt_<PROP> into seeded/<PROP>_<next letter>/
set -e
P=$1
last=$(ls /verif/seeded | grep "^${P}_" | sed "s/^${P}_//" | sort | tail -1)
next=$(python3 -c "print(chr(ord('$last')+1))")
D=/verif/seeded/${P}_$next
mkdir -p $D
cp /tmp/wt_$P/seeded.patch $D/patch.diff
cp /tmp/wt_$P/tests/seeded_demo.rs $D/seeded_demo.rs
cp /tmp/wt_$P/seeded.md $D/agent_note.md
echo ${P}_$next
