import sys
pid=sys.argv[1]
prop=open(f"/tmp/prop_{pid}.txt").read()
print(f"""You are working on the Rust crate rspack-sources (a port of webpack-sources: Raw/Original/SourceMap/Concat/Replace/Cached source objects that emit source maps, plus a Rope). You have your own scratch git worktree of it at /tmp/wt_{pid}. Work ONLY inside /tmp/wt_{pid}; do not read or write /repo, /verif or any other /tmp/wt_* directory. The sandbox is offline: build and test with `cargo test --offline` inside the worktree (toolchain 1.83 is pinned by rust-toolchain.toml; the first build takes ~20 s). Do not use `git add -A` (a bench fixture in the tree is intentionally emptied); never commit.

Here is a semantic property that users of the crate rely on:

{prop}
Your task: produce a REALISTIC change to the library source (files under src/) that BREAKS this property while the crate still compiles and the existing test suite still passes completely (`cargo test --offline` green: unit tests, tests/ and doc tests). The change should look like something a maintainer could plausibly write during a refactoring, optimisation or bug fix (an off-by-one in offset/cursor logic, a dropped state reset, a reordered pair of statements, a cache keyed too coarsely, a comparison that ignores a field, a shortcut for a 'common case', ...), keep it small (a few lines), and - importantly - choose it so that it needs something SPECIFIC to manifest: a particular multi-step sequence of calls, an unusual input shape, a particular thread interleaving, a fault at a particular point, or two cooperating sites that each look fine alone. Do not pick a change that any ordinary use would expose at once.

Note: the source contains verification hook code guarded by `#[cfg(feature = "verif_hooks")]` (module src/verif.rs and scattered hook calls). Leave that code in place and unmodified; your change must compile with the feature on and off (`cargo build --offline --features verif_hooks` as well).

Deliverables, all inside /tmp/wt_{pid}:
1. `seeded.patch` - the source change only, produced with `git diff -- src > seeded.patch` (it must apply with `git apply` to a clean checkout).
2. `tests/seeded_demo.rs` - a demonstration: an integration test using the crate's public API (a plain #[test] fn; for concurrency it may use threads with loops/retries, or the public hooks under the feature if you need determinism) that FAILS with your change applied and PASSES without it. Keep it deterministic if at all possible.
3. `seeded.md` - a short note: what you changed and why it breaks the property, what exactly it needs in order to manifest, and the exact commands you ran with their results.

Verify everything yourself before finishing:
 a. with the change applied: `cargo test --offline --lib`, `cargo test --offline --doc` and the existing files under tests/ (e.g. `cargo test --offline --test compat_source`) all pass; `cargo build --offline --features verif_hooks` compiles; `cargo test --offline --test seeded_demo` FAILS;
 b. with the change reverted (`git apply -R seeded.patch` or `git checkout -- src`): `cargo test --offline --test seeded_demo` PASSES.
Leave the worktree with the source change REVERTED (clean `git diff -- src`), and the three files above present (untracked). In your final answer, summarise the change in 3-5 lines and state clearly whether (a) and (b) held.""")
