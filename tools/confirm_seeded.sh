#!/bin/bash
# usage: tools/confirm_seeded.sh <seeded-id>
# Confirms in a scratch worktree (removed afterwards) that the seeded change compiles, keeps the
# existing test suite green, and that its demonstration fails with it and passes without it.
set -u
ROOT="$(cd "$(dirname "${BASH_SOURCE[0]}")/.." && pwd)"
ID="${1:?seeded id}"
DIR="$ROOT/seeded/$ID"
WT="/tmp/confirm_$ID"
rm -rf "$WT"; git -C /repo worktree prune
git -C /repo worktree add -q "$WT" HEAD || exit 2
trap 'git -C /repo worktree remove --force "$WT" >/dev/null 2>&1; rm -rf "$WT"' EXIT
cp "$DIR/seeded_demo.rs" "$WT/tests/seeded_demo.rs"
cd "$WT" || exit 2
res() { if [ "$1" -eq 0 ]; then echo pass; else echo FAIL; fi; }
FEAT=""; grep -q 'verif_hooks' tests/seeded_demo.rs && grep -q 'required-features\|cfg(feature' tests/seeded_demo.rs && FEAT="--features verif_hooks"
cargo test --offline $FEAT --test seeded_demo >/tmp/confirm_$ID.demo0.log 2>&1; demo_without=$(res $?)
git apply "$DIR/patch.diff" || { echo "patch does not apply"; exit 2; }
cargo test --offline --lib >/tmp/confirm_$ID.lib.log 2>&1; lib=$(res $?)
cargo test --offline --doc >/tmp/confirm_$ID.doc.log 2>&1; doc=$(res $?)
cargo test --offline --test compat_source >/tmp/confirm_$ID.compat.log 2>&1; compat=$(res $?)
cargo build --offline --features verif_hooks >/tmp/confirm_$ID.feat.log 2>&1; feat=$(res $?)
cargo test --offline $FEAT --test seeded_demo >/tmp/confirm_$ID.demo1.log 2>&1; demo_with=$(res $?)
echo "seeded=$ID existing_lib=$lib existing_doc=$doc existing_compat=$compat builds_with_hooks=$feat demo_without_change=$demo_without demo_with_change=$demo_with"
python3 - "$DIR/meta.json" "$lib" "$doc" "$compat" "$feat" "$demo_without" "$demo_with" <<'PY'
import json,sys
p=sys.argv[1]; m=json.load(open(p))
m['confirmed']={'existing_tests_with_change':{'lib':sys.argv[2],'doc':sys.argv[3],'compat_source':sys.argv[4]},'builds_with_verif_hooks':sys.argv[5],'demo_without_change':sys.argv[6],'demo_with_change':sys.argv[7],'how':'tools/confirm_seeded.sh in a scratch worktree of /repo HEAD (removed afterwards)'}
json.dump(m,open(p,'w'),indent=1)
PY
rm -f /tmp/confirm_$ID.*.log
